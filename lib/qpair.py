"""Relational denotation of the query engine's two implementations of a constraint (C08.PAIR).

Every constraint of a SELECT query has two implementations per result type: as first constraint
it *produces* the candidates (init_state_<type>: an index-driven source), as later constraint it
*filters* them (update_state_<type>: iter.filter_*(..), which resolves through the Filter enum
to an arm of Filtered<Type>::test_filter).  Both are navigation chains over the same small API,
so both can be read as a formula  { x | exists v.. : atoms }  over primitive relations
(has_data, key_of, targets, on_text, ...).  NAV below is the reviewed table that gives each
navigation method its primitive relation - the *only* trusted semantics.  Everything else is
extracted from the current source: which arm serves which constraint shape, which filter method
builds which Filter variant, which test_filter arm interprets it and what that arm computes.
The rule compares the two formulas after canonicalisation."""
import itertools
import re
from synq import walk, find, unparse, strip, pat_names, block_tail


class Undecided(Exception):
    """the model has no reading for a construct: the pair is reported as not decided"""


KIND_FILE = {"Ann": "src/api/annotation.rs", "Data": "src/api/annotationdata.rs", "Key": "src/api/datakey.rs",
             "Set": "src/api/annotationdataset.rs", "Tsel": "src/api/textselection.rs", "Res": "src/api/resources.rs"}
RESULT_KIND = {"annotations": "Ann", "data": "Data", "keys": "Key", "datasets": "Set", "textselections": "Tsel", "resources": "Res"}
RESOLVERS = {"annotation": ("Ann", "A"), "resolve_annotationvar": ("Ann", "A"), "key": ("Key", "K"), "resolve_keyvar": ("Key", "K"),
             "dataset": ("Set", "S"), "resolve_datasetvar": ("Set", "S"), "resource": ("Res", "R"), "resolve_resourcevar": ("Res", "R"),
             "resolve_datavar": ("Data", "D"), "resolve_textvar": ("Tsel", "T"), "substore": ("Sub", "SS"), "resolve_substorevar": ("Sub", "SS")}
HANDLES_KIND = {"Annotations": "Ann", "Data": "Data", "Keys": "Key", "Resources": "Res", "TextSelections": "Tsel"}
TRANSPARENT = {"or_fail", "clone", "into_iter", "iter", "to_handles", "as_ref", "unwrap", "copied", "cloned", "deref", "textual_order", "expect"}


class Den:
    """{ var : kind | exists ex : atoms }"""

    def __init__(self, kind, var, atoms=(), single=False):
        self.kind = kind
        self.var = var
        self.atoms = list(atoms)
        self.single = single  # an entity (one item), not a collection

    def copy(self):
        return Den(self.kind, self.var, list(self.atoms), self.single)


class Ctx:
    def __init__(self):
        self.n = 0

    def fresh(self, prefix="v"):
        self.n += 1
        return "%s%d" % (prefix, self.n)


def depth_class(t):
    return "Max" if t == "Max" else ("One" if t in ("One", "Zero") else t)


# ------------------------------------------------------------------ the reviewed navigation table
# (kind, method) -> (result kind, builder(recv, res, args) -> atoms)
# Each line states the relation between the receiver item and every item the method yields, as
# documented on the method.  The correctness of the methods themselves is not decided here.
NAV = {
    ("Ann", "annotations"): ("Ann", lambda r, y, a: [("targets", y, r, "One")]),             # annotations that reference this annotation
    ("Ann", "annotations_in_targets"): ("Ann", lambda r, y, a: [("targets", r, y, depth_class(a[0]) if a else "One")]),  # annotations this annotation targets
    ("Ann", "data"): ("Data", lambda r, y, a: [("has_data", r, y)]),
    ("Ann", "keys"): ("Key", lambda r, y, a: [("has_data", r, "?d"), ("key_of", "?d", y)]),
    ("Ann", "data_as_metadata"): ("Data", lambda r, y, a: [("meta_data", r, y)]),              # via AnnotationDataSelector
    ("Ann", "keys_as_metadata"): ("Key", lambda r, y, a: [("meta_key", r, y)]),                # via DataKeySelector
    ("Ann", "resources"): ("Res", lambda r, y, a: [("on_text", r, y)]),                        # via TextSelector
    ("Ann", "resources_as_metadata"): ("Res", lambda r, y, a: [("meta_res", r, y)]),           # via ResourceSelector
    ("Ann", "datasets"): ("Set", lambda r, y, a: [("meta_set", r, y)]),                        # via DataSetSelector
    ("Ann", "textselections"): ("Tsel", lambda r, y, a: [("selects", r, y)]),
    ("Ann", "related_text"): ("Tsel", lambda r, y, a: [("related_set", r, y, a[0] if a else "OP")]),
    ("Data", "annotations"): ("Ann", lambda r, y, a: [("has_data", y, r)]),
    ("Data", "annotations_as_metadata"): ("Ann", lambda r, y, a: [("meta_data", y, r)]),
    ("Data", "key"): ("Key", lambda r, y, a: [("key_of", r, y)]),
    ("Data", "set"): ("Set", lambda r, y, a: [("in_set", r, y)]),
    ("Data", "keys"): ("Key", lambda r, y, a: [("key_of", r, y)]),
    ("Key", "annotations"): ("Ann", lambda r, y, a: [("has_data", y, "?d"), ("key_of", "?d", r)]),
    ("Key", "annotations_as_metadata"): ("Ann", lambda r, y, a: [("meta_key", y, r)]),
    ("Key", "data"): ("Data", lambda r, y, a: [("key_of", y, r)]),
    ("Key", "set"): ("Set", lambda r, y, a: [("key_in_set", r, y)]),
    ("Set", "data"): ("Data", lambda r, y, a: [("in_set", y, r)]),
    ("Set", "keys"): ("Key", lambda r, y, a: [("key_in_set", y, r)]),
    ("Set", "annotations"): ("Ann", lambda r, y, a: [("has_data", y, "?d"), ("in_set", "?d", r)]),
    ("Set", "annotations_as_metadata"): ("Ann", lambda r, y, a: [("meta_set", y, r)]),
    ("Res", "annotations"): ("Ann", lambda r, y, a: [("on_text", y, r)]),
    ("Res", "annotations_as_metadata"): ("Ann", lambda r, y, a: [("meta_res", y, r)]),
    ("Res", "textselections"): ("Tsel", lambda r, y, a: [("in_res", y, r)]),
    ("Tsel", "annotations"): ("Ann", lambda r, y, a: [("selects", y, r)]),
    ("Tsel", "resource"): ("Res", lambda r, y, a: [("in_res", r, y)]),
    ("Tsel", "related_text"): ("Tsel", lambda r, y, a: [("related", r, y, a[0] if a else "OP")]),
    ("Ann", "substore"): ("Sub", lambda r, y, a: [("in_sub", r, y)]),
    ("Set", "substores"): ("Sub", lambda r, y, a: [("in_sub", r, y)]),
    ("Res", "substores"): ("Sub", lambda r, y, a: [("in_sub", r, y)]),
    ("Sub", "annotations"): ("Ann", lambda r, y, a: [("in_sub", y, r)]),
    ("Sub", "datasets"): ("Set", lambda r, y, a: [("in_sub", y, r)]),
    ("Sub", "resources"): ("Res", lambda r, y, a: [("in_sub", y, r)]),
}
# store-level sources: method -> (kind, atoms builder(args terms))
SOURCES = {
    "annotations": ("Ann", lambda a: []), "data": ("Data", lambda a: []), "keys": ("Key", lambda a: []),
    "datasets": ("Set", lambda a: []), "resources": ("Res", lambda a: []),
    "annotations_no_substores": ("Ann", lambda a: [("in_sub", "$x", "None")]),
    "datasets_no_substores": ("Set", lambda a: [("in_sub", "$x", "None")]),
    "resources_no_substores": ("Res", lambda a: [("in_sub", "$x", "None")]),
    "find_text": ("Tsel", lambda a: [("text_is", "$x", "TEXT", "Exact")]),
    "find_text_nocase": ("Tsel", lambda a: [("text_is", "$x", "TEXT", "CaseInsensitive")]),
}


class Model:
    def __init__(self, syn):
        self.syn = syn
        self.ctx = Ctx()
        self.enums = syn.enums
        self.notes = []

    # -------------------------------------------------------------- shapes of constraints
    def shapes(self):
        out = []
        cons = self.enums["Constraint"]
        for v in cons["variants"]:
            doms = []
            names = []
            for i, f in enumerate(v.get("fields") or []):
                ty = re.sub(r"\s+", "", f["ty"]["s"])
                names.append(f.get("name") or str(i))
                if ty == "SelectionQualifier":
                    doms.append(["Normal", "Metadata"])
                elif ty == "AnnotationDepth":
                    doms.append(["Zero", "One", "Max"])
                elif ty == "TextMode":
                    doms.append(["Exact", "CaseInsensitive"])
                elif ty.startswith("Option<"):
                    doms.append(["None", "Some"])
                else:
                    doms.append(["$%s" % (f.get("name") or i)])
            for combo in itertools.product(*doms):
                out.append((v["name"], tuple(names), tuple(combo)))
        return out

    def match(self, pat, shape, binds):
        """does the arm pattern match the constraint shape?"""
        p = pat.get("p")
        if p == "ref":
            return self.match(pat["pat"], shape, binds)
        if p == "or":
            for c in pat["cases"]:
                b = {}
                if self.match(c, shape, b):
                    binds.update(b)
                    return True
            return False
        if p == "tuplestruct" and pat["path"] == ["Some"]:
            return shape is not None and self.match(pat["elems"][0], shape, binds)
        if p in ("path", "ident") and (pat.get("path") == ["None"] or pat.get("name") == "None"):
            return shape is None
        if shape is None:
            return p in ("wild",) or (p == "ident" and pat.get("name") not in ("None",))
        if p == "wild":
            return True
        if p == "ident":
            binds[pat["name"]] = ("shape", shape)
            return True
        vname, names, vals = shape
        if p == "tuplestruct":
            if pat["path"][-1] != vname:
                return False
            elems = pat["elems"]
            if any(e.get("p") == "rest" for e in elems):
                return True
            if len(elems) != len(vals):
                return False
            return all(self.match_field(e, v, binds) for e, v in zip(elems, vals))
        if p == "struct":
            if pat["path"][-1] != vname:
                return False
            for f in pat["fields"]:
                if f["name"] not in names:
                    return False
                if not self.match_field(f["pat"], vals[names.index(f["name"])], binds):
                    return False
            return True
        if p == "path":
            return pat["path"][-1] == vname and not vals
        raise Undecided("pattern kind %s" % p)

    def match_field(self, pat, val, binds):
        p = pat.get("p")
        if p == "ref":
            return self.match_field(pat["pat"], val, binds)
        if p == "wild":
            return True
        if p == "ident":
            if pat["name"] == "None":
                return val == "None"
            binds[pat["name"]] = val
            return True
        if p == "path":
            return pat["path"][-1] == val
        if p == "tuplestruct":  # Some(x)
            if pat["path"][-1] == "Some":
                if val != "Some":
                    return False
                for e in pat["elems"]:
                    for n in pat_names(e):
                        binds[n] = "$some"
                return True
            return False
        if p == "or":
            return any(self.match_field(c, val, binds) for c in pat["cases"])
        raise Undecided("field pattern kind %s" % p)

    # -------------------------------------------------------------- terms
    def term(self, e, env):
        e = strip(e)
        k = e.get("k")
        if k == "path":
            if len(e["path"]) == 1:
                n = e["path"][0]
                if n in env:
                    return env[n]
                if n in ("None",):
                    return "None"
                if n in ("true", "false"):
                    return n
                raise Undecided("unbound name %s" % n)
            return e["path"][-1]
        if k == "lit":
            return "lit:%s" % (e.get("v"),)
        if k == "try" or k == "paren":
            return self.term(e["e"], env)
        if k == "call":
            fn = unparse(e["func"])
            if fn == "Some" and len(e["args"]) == 1:
                return self.term(e["args"][0], env)
            if fn.endswith("::default") and not e["args"]:
                ty = fn.split("::")[-2]
                for f in self.syn.fns:
                    if f.name == "default" and (f.self_ty or "") == ty and f.body is not None:
                        t = block_tail(f.body)
                        if t is not None and strip(t).get("k") == "path":
                            return strip(t)["path"][-1]
                raise Undecided("Default of %s" % ty)
            raise Undecided("call %s in term position" % fn)
        if k == "if" and e["cond"].get("k") == "letexpr":
            br = self.static_branch(e, env)
            if br is not None:
                branch, env2 = br
                t = block_tail(branch["block"] if branch.get("k") == "blockexpr" else branch)
                if t is None:
                    raise Undecided("branch without value")
                return self.term(t, env2)
            raise Undecided("conditional term")
        if k == "mcall":
            m = e["method"]
            if m in ("handle", "fullhandle", "clone", "as_ref", "deref", "or_fail", "unwrap", "expect", "to_string", "as_str", "into", "to_handles"):
                return self.term(e["recv"], env)
            if m == "map" and e["args"] and strip(e["args"][0]).get("k") == "closure" and re.fullmatch(r"\|(\w+)\|\1\.handle\(\)", unparse(strip(e["args"][0]))):
                return self.term(e["recv"], env)
            if m in RESOLVERS and unparse(strip(e["recv"])) in ("store", "self", "self.store()"):
                kind, name = RESOLVERS[m]
                return Den(kind, name, [], single=True)
            r = self.term(e["recv"], env)
            if isinstance(r, Den) and r.single and (r.kind, m) in NAV:
                return self.nav(r, m, [self.term(a, env) for a in e["args"]], single=True)
            if m in RESOLVERS and unparse(strip(e["recv"])) in ("store", "self", "self.store()"):
                kind, name = RESOLVERS[m]
                return Den(kind, name, [], single=True)
            raise Undecided("method %s in term position" % m)
        if k == "field":
            return self.term(e["base"], env)
        raise Undecided("term %s" % unparse(e)[:40])

    def tname(self, t):
        return t.var if isinstance(t, Den) else t

    def nav(self, den, method, args, single=False):
        rk, builder = NAV[(den.kind, method)]
        y = self.ctx.fresh()
        atoms = []
        sub = {}
        for at in builder(den.var, y, [self.tname(a) for a in args]):
            new = []
            for t in at:
                if isinstance(t, str) and t.startswith("?"):
                    if t not in sub:
                        sub[t] = self.ctx.fresh()
                    t = sub[t]
                new.append(t)
            atoms.append(tuple(new))
        return Den(rk, y, den.atoms + atoms, single=single)

    # -------------------------------------------------------------- set-valued expressions
    def set_expr(self, e, env):
        e = strip(e)
        k = e.get("k")
        if k in ("try", "paren"):
            return self.set_expr(e["e"], env)
        if k == "blockexpr":
            return self.body(e["block"], dict(env))
        if k == "path" and len(e["path"]) == 1:
            v = env.get(e["path"][0])
            if isinstance(v, Den):
                return v.copy()
            raise Undecided("name %s is not a collection" % e["path"][0])
        if k == "call":
            fn = unparse(e["func"])
            if fn == "Box::new" and e["args"]:
                return self.set_expr(e["args"][0], env)
            if fn == "ResultTextSelections::new" and e["args"]:
                return self.set_expr(e["args"][0], env)
            if fn == "FromHandles::new" and e["args"]:
                t = self.term(e["args"][0], env)
                if isinstance(t, tuple) and t and t[0] == "handles":
                    x = self.ctx.fresh()
                    return Den(t[1], x, [("member", x, "HS")])
                raise Undecided("FromHandles over %r" % (t,))
            if fn == "Some" and e["args"]:
                t = self.term(e["args"][0], env)
                if isinstance(t, Den) and t.single:
                    return self.as_set(t)
                raise Undecided("Some(%s)" % unparse(e["args"][0])[:30])
            raise Undecided("call %s" % fn)
        if k == "mcall":
            m = e["method"]
            recv_src = unparse(strip(e["recv"]))
            if recv_src in ("store", "self.store()") or (recv_src == "self" and m in ("store",)):
                if m in SOURCES:
                    kind, b = SOURCES[m]
                    x = self.ctx.fresh()
                    return Den(kind, x, [tuple(x if t == "$x" else t for t in at) for at in b(e["args"])])
                if m == "find_data":
                    x = self.ctx.fresh()
                    atoms = []
                    a = [unparse(strip(z)) for z in e["args"]]
                    if a[1] != "false":
                        atoms.append(("key_of", x, "K"))
                    elif a[0] != "false":
                        atoms.append(("in_set", x, "S"))
                    if a[2] != "DataOperator::Any":
                        atoms.append(("passes", x, "OP"))
                    return Den("Data", x, atoms)
                if m in RESOLVERS:
                    kind, name = RESOLVERS[m]
                    return Den(kind, name, [], single=True)
                raise Undecided("store.%s" % m)
            if recv_src == "self" and m in RESOLVERS:
                kind, name = RESOLVERS[m]
                return Den(kind, name, [], single=True)
            recv = self.set_expr(e["recv"], env)
            if m in TRANSPARENT:
                return recv
            if m == "filter_map" and e["args"] and re.fullmatch(r"\|(\w+)\|\1\.as_resultitem\(\)\.map\(\|(\w+)\|\2\.clone\(\)\)", unparse(strip(e["args"][0]))):
                self.notes.append("filter_map(as_resultitem) read as: text selections known to the store only")
                return recv
            if (recv.kind, m) in NAV:
                d = self.nav(recv, m, [self.term(a, env) for a in e["args"]])
                return d
            if m.startswith("filter_"):
                args = [self.arg_value(a, env) for a in e["args"]]
                atoms = self.filter_atoms(recv.kind, m, args, recv.var)
                recv.atoms += atoms
                recv.single = False
                return recv
            raise Undecided("method %s on a collection of %s" % (m, recv.kind))
        raise Undecided("expression %s" % unparse(e)[:50])

    def static_branch(self, e, env):
        """`if let Some(p) = NAME {..} else {..}` where NAME is fixed by the constraint shape or the call argument"""
        c = e["cond"]
        src = strip(c["e"])
        if src.get("k") != "path" or len(src["path"]) != 1 or src["path"][0] not in env:
            return None
        v = env[src["path"][0]]
        pat = re.sub(r"\s+", "", c["pat"]["s"])
        if not pat.startswith("Some("):
            return None
        if v == "None":
            if e.get("else") is None:
                return None
            return strip(e["else"]), dict(env)
        if v == "?" or v is None:
            return None
        env2 = dict(env)
        for n in pat_names(c["pat"]):
            env2[n] = v
        return {"k": "blockexpr", "block": e["then"]}, env2

    def as_set(self, ent):
        """the one-element collection { x | x = entity }"""
        if re.fullmatch(r"v\d+", ent.var):
            return Den(ent.kind, ent.var, list(ent.atoms))
        x = self.ctx.fresh()
        return Den(ent.kind, x, list(ent.atoms) + [("eq", x, ent.var)])

    def arg_value(self, a, env):
        """value of a call argument: a term, an entity, or a collection (for filter_any)"""
        try:
            return self.term(a, env)
        except Undecided:
            return self.set_expr(a, env)

    # -------------------------------------------------------------- filters
    def filter_atoms(self, kind, method, args, cand):
        """atoms that `iter.method(args)` imposes on the candidate variable"""
        file = KIND_FILE.get(kind)
        fns = [f for f in self.syn.fns if f.file == file and f.name == method and f.in_trait and f.body is not None]
        if len(fns) != 1:
            raise Undecided("filter method %s for %s (%d definitions)" % (method, kind, len(fns)))
        fn = fns[0]
        params = [p["pat"].get("name") for p in fn.sig["inputs"]]
        env = {}
        for p, a in zip(params, args):
            env[p] = a
        body = fn.body
        t = block_tail(body)
        guard = 0
        while t is not None and strip(t).get("k") == "if" and strip(t)["cond"].get("k") == "letexpr" and guard < 4:
            br = self.static_branch(strip(t), env)
            if br is None:
                raise Undecided("filter method %s branches on an argument that is not fixed" % method)
            body, env = (br[0]["block"] if br[0].get("k") == "blockexpr" else br[0]), br[1]
            t = block_tail(body) if body.get("k") == "block" else body
            guard += 1
        if t is not None and strip(t).get("k") == "mcall" and unparse(strip(strip(t)["recv"])) == "self" and strip(t)["method"].startswith("filter_"):
            t = strip(t)
            return self.filter_atoms(kind, t["method"], [self.arg_value(a, env) for a in t["args"]], cand)
        lits = [n for n in walk(body) if n.get("k") == "structlit" and n["path"][-1].startswith("Filtered")]
        if len(lits) != 1:
            raise Undecided("filter method %s does not build one Filtered* value" % method)
        fexpr = [f["e"] for f in lits[0]["fields"] if f["name"] == "filter"]
        if not fexpr:
            raise Undecided("no filter field in %s" % method)
        fexpr = strip(fexpr[0])
        if fexpr.get("k") != "call" or unparse(fexpr["func"]).split("::")[0] != "Filter":
            raise Undecided("filter expression %s" % unparse(fexpr)[:40])
        variant = fexpr["func"]["path"][-1]
        fargs = []
        for a in fexpr["args"]:
            try:
                fargs.append(self.term(a, env))
            except Undecided:
                fargs.append("?")
        return self.test_arm(kind, lits[0]["path"][-1], variant, fargs, cand)

    def test_arm(self, kind, filtered_ty, variant, fargs, cand):
        file = KIND_FILE[kind]
        tfs = [f for f in self.syn.fns if f.file == file and f.name == "test_filter" and (f.self_ty or "").startswith(filtered_ty)]
        if len(tfs) != 1:
            raise Undecided("test_filter of %s" % filtered_ty)
        tf = tfs[0]
        candname = tf.sig["inputs"][0]["pat"].get("name")
        ms = [m for m in find(tf.body, "match")]
        if not ms:
            raise Undecided("test_filter without match")
        for arm in ms[0]["arms"]:
            binds = {}
            if self.match_filter_pat(arm["pat"], variant, fargs, binds):
                env = dict(binds)
                env[candname] = Den(kind, cand, [], single=True)
                return self.bool_atoms(arm["body"], env)
        raise Undecided("no test_filter arm for Filter::%s" % variant)

    def match_filter_pat(self, pat, variant, fargs, binds):
        p = pat.get("p")
        if p == "ref":
            return self.match_filter_pat(pat["pat"], variant, fargs, binds)
        if p == "or":
            return any(self.match_filter_pat(c, variant, fargs, binds) for c in pat["cases"])
        if p != "tuplestruct" or pat["path"][-1] != variant:
            return False
        elems = pat["elems"]
        if len(elems) != len(fargs):
            return False
        for e, v in zip(elems, fargs):
            ep = e.get("p")
            if ep == "wild":
                continue
            if ep == "ident":
                binds[e["name"]] = v
                continue
            if ep == "path":
                if isinstance(v, str) and v == e["path"][-1]:
                    continue
                if v == "?":
                    raise Undecided("filter argument not resolved for pattern %s" % e["s"])
                return False
            raise Undecided("filter pattern element %s" % e["s"])
        return True

    def bool_atoms(self, e, env):
        e = strip(e)
        k = e.get("k")
        if k == "blockexpr":
            t = block_tail(e["block"])
            if len(e["block"]["stmts"]) == 1 and t is not None:
                return self.bool_atoms(t, env)
            raise Undecided("block in filter arm")
        if k == "if" and e["cond"].get("k") == "letexpr":
            c = e["cond"]
            br = self.static_branch(e, env)
            if br is not None:
                return self.bool_atoms(br[0], br[1])
            # `if let Some(y) = cand.as_resultitem() { .. } else { false }`: candidates known to the store
            src = strip(c["e"])
            if src.get("k") == "mcall" and src["method"] == "as_resultitem" and e.get("else") is not None and unparse(strip(e["else"])) == "{false}":
                env2 = dict(env)
                for n in pat_names(c["pat"]):
                    env2[n] = self.term(src["recv"], env)
                return self.bool_atoms({"k": "blockexpr", "block": e["then"]}, env2)
            raise Undecided("conditional filter arm")
        if k == "binary" and e["op"] == "==" and unparse(strip(e["right"])) == "0" and strip(e["left"]).get("k") == "mcall" and strip(e["left"])["method"] == "count":
            d = self.chain_from(strip(e["left"])["recv"], env)
            return [tuple("None" if t == d.var else t for t in at) for at in d.atoms]
        if k == "binary" and e["op"] == "&&":
            return self.bool_atoms(e["left"], env) + self.bool_atoms(e["right"], env)
        if k == "binary" and e["op"] == "==":
            l, la = self.single(e["left"], env)
            r, ra = self.single(e["right"], env)
            return la + ra + [("eq", l, r)]
        if k == "mcall":
            m = e["method"]
            if m == "test" and not e["args"]:
                d = self.chain_from(e["recv"], env)
                return d.atoms
            if m == "test" and len(e["args"]) == 2:
                r = self.term(e["recv"], env)
                if isinstance(r, Den) and r.kind == "Data" and unparse(strip(e["args"][0])) == "false":
                    return [("passes", r.var, self.tname(self.term(e["args"][1], env)))]
                raise Undecided("test(..) on %s" % unparse(e["recv"])[:30])
            if m == "any" and e["args"] and strip(e["args"][0]).get("k") == "closure":
                d = self.chain_from(e["recv"], env)
                clo = strip(e["args"][0])
                env2 = dict(env)
                for p in clo["inputs"]:
                    for n in pat_names(p):
                        env2[n] = Den(d.kind, d.var, [], single=True)
                return d.atoms + self.bool_atoms(clo["body"], env2)
            if m == "contains" and e["args"]:
                coll = self.term(e["recv"], env)
                item = self.term(e["args"][0], env)
                if isinstance(coll, Den):
                    # x in { y | atoms }: substitute
                    return [tuple(self.tname(item) if t == coll.var else t for t in at) for at in coll.atoms] or [("true",)]
                return [("member", self.tname(item), coll if isinstance(coll, str) else "HS")]
        raise Undecided("boolean %s" % unparse(e)[:60])

    def single(self, e, env):
        """term of a single-valued expression, with the atoms its navigation needs"""
        e = strip(e)
        if e.get("k") == "unary" and e["op"] == "*":
            e = strip(e["e"])
        t = self.term(e, env)
        if isinstance(t, Den):
            return t.var, list(t.atoms)
        return t, []

    def chain_from(self, e, env):
        """a navigation chain that starts at an entity of env (the candidate)"""
        e = strip(e)
        if e.get("k") == "mcall":
            m = e["method"]
            inner = strip(e["recv"])
            if inner.get("k") == "path" and len(inner["path"]) == 1 and isinstance(env.get(inner["path"][0]), Den):
                base = env[inner["path"][0]]
                if (base.kind, m) in NAV:
                    return self.nav(base, m, [self.term(a, env) for a in e["args"]])
                raise Undecided("navigation %s.%s" % (base.kind, m))
            recv = self.chain_from(inner, env)
            if m in TRANSPARENT:
                return recv
            if (recv.kind, m) in NAV:
                return self.nav(recv, m, [self.term(a, env) for a in e["args"]])
            if m.startswith("filter_"):
                args = [self.arg_value(a, env) for a in e["args"]]
                recv.atoms += self.filter_atoms(recv.kind, m, args, recv.var)
                return recv
            raise Undecided("method %s in a filter chain over %s" % (m, recv.kind))
        raise Undecided("chain %s" % unparse(e)[:40])

    # -------------------------------------------------------------- arm bodies
    def body(self, b, env):
        """the collection an arm body evaluates to: {case label: Den}"""
        if b.get("k") == "blockexpr":
            b = b["block"]
        if b.get("k") != "block":
            return self.tail(b, env)
        for s in b["stmts"][:-1]:
            if s.get("k") == "let" and s.get("init") is not None:
                nm = pat_names(s["pat"])
                if len(nm) == 1:
                    try:
                        env[nm[0]] = self.arg_value(s["init"], env)
                    except Undecided:
                        env[nm[0]] = "?"
                    continue
            raise Undecided("statement %s" % unparse(s)[:50])
        last = b["stmts"][-1] if b["stmts"] else None
        if last is None or last.get("k") != "exprstmt":
            raise Undecided("arm without value")
        return self.tail(last["e"], env)

    def tail(self, e, env):
        e0 = strip(e)
        if e0.get("k") == "if" and e0["cond"].get("k") == "letexpr":
            br = self.static_branch(e0, env)
            if br is not None:
                return self.body(br[0], br[1])
            out = {}
            cur = e0
            while cur is not None and cur.get("k") == "if" and cur["cond"].get("k") == "letexpr":
                c = cur["cond"]
                src = unparse(strip(c["e"]))
                m = re.match(r"self\.(resolve_\w+)\(", src)
                if not m:
                    raise Undecided("conditional %s" % src[:40])
                label = m.group(1)
                env2 = dict(env)
                kind, name = RESOLVERS[label]
                for n in pat_names(c["pat"]):
                    env2[n] = Den(kind, name, [], single=True)
                sub = self.body(cur["then"], env2)
                for k_, v_ in sub.items():
                    out[label + ("/" + k_ if k_ else "")] = v_
                cur = strip(cur["else"]) if cur.get("else") is not None else None
                if cur is not None and cur.get("k") == "blockexpr":
                    t = block_tail(cur["block"])
                    stm = cur["block"]["stmts"]
                    if len(stm) == 1 and stm[0].get("k") == "exprstmt" and strip(stm[0]["e"]).get("k") == "return":
                        cur = None
                    elif t is not None and strip(t).get("k") == "if":
                        cur = strip(t)
                    else:
                        cur = None
            return out
        if e0.get("k") == "blockexpr":
            return self.body(e0["block"], dict(env))
        if e0.get("k") in ("return", "macro"):
            raise Undecided("arm ends in %s" % e0.get("k"))
        return {"": self.set_expr(e0, env)}


# ------------------------------------------------------------------ canonical form
def canonical(den):
    """canonical string of { x | exists ... atoms }"""
    atoms = [tuple(a) for a in den.atoms if a != ("true",)]
    # eliminate equalities with existential variables / propagate equalities with the result variable
    changed = True
    consts = lambda t: isinstance(t, str) and not re.fullmatch(r"v\d+", t)
    resvar = den.var
    while changed:
        changed = False
        for a in list(atoms):
            if a[0] == "eq":
                l, r = a[1], a[2]
                if l == r:
                    atoms.remove(a)
                    changed = True
                    break
                # substitute an existential variable by the other side
                for frm, to in ((l, r), (r, l)):
                    if isinstance(frm, str) and re.fullmatch(r"v\d+", frm) and frm != resvar:
                        atoms = [tuple(to if t == frm else t for t in b) for b in atoms if b is not a]
                        changed = True
                        break
                if changed:
                    break
    # implied atoms.  key_of, in_set and key_in_set are total functions (every data item has one key and
    # one set, every key one set) and the set of a data item is the set of its key:
    isex = lambda t: isinstance(t, str) and re.fullmatch(r"v\d+", t) and t != resvar
    changed = True
    while changed:
        changed = False
        atoms = sorted(set(atoms))
        count = {}
        for a in atoms:
            for t in a[1:]:
                count[t] = count.get(t, 0) + 1
        for a in atoms:
            if a[0] in ("in_set", "key_in_set", "key_of") and isex(a[2]) and count[a[2]] == 1:
                atoms.remove(a)   # exists s: in_set(d, s) is always true
                changed = True
                break
        if changed:
            continue
        for a in atoms:
            if a[0] == "key_of":
                d, k = a[1], a[2]
                for b in atoms:
                    if b[0] == "in_set" and b[1] == d and isex(b[2]):
                        s_ = b[2]
                        c = ("key_in_set", k, s_)
                        if c in atoms and count[s_] == 2:
                            atoms.remove(b)
                            atoms.remove(c)
                            changed = True
                            break
                if changed:
                    break
    atoms = sorted(set(atoms))
    exvars = sorted(set(t for a in atoms for t in a[1:] if isinstance(t, str) and re.fullmatch(r"v\d+", t) and t != resvar))
    best = None
    for perm in itertools.permutations(range(len(exvars))) if len(exvars) <= 5 else [tuple(range(len(exvars)))]:
        ren = dict((v, "e%d" % perm[i]) for i, v in enumerate(exvars))
        ren[resvar] = "x"
        s = sorted(tuple(ren.get(t, t) if isinstance(t, str) else t for t in a) for a in atoms)
        if best is None or s < best:
            best = s
    return best or []


def fmt(can):
    return " & ".join("%s(%s)" % (a[0], ",".join(str(t) for t in a[1:])) for a in can) or "true"
