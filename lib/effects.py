"""A3: field effects - which bodies mutably borrow or assign which field of which local ADT."""
import collections
import mirq


def field_effects(prog):
    """(adt path, field name) -> {body id: first line}"""
    eff = collections.defaultdict(dict)
    for bid, b in prog.bodies.items():
        for bl in b.blocks:
            for s in bl["s"]:
                places = []
                rv = s.get("rv")
                if any(isinstance(e, dict) and "f" in e for e in s["p"]["p"]):
                    places.append(s["p"])
                if rv and rv.get("r") in ("ref", "rawptr") and str(rv.get("bk")).lower().startswith("mut"):
                    places.append(rv["p"])
                for pl in places:
                    for e in pl["p"]:
                        if isinstance(e, dict) and "f" in e and e.get("a") in prog.adts:
                            eff[(e["a"], e.get("n"))].setdefault(bid, s.get("line"))
    return eff


def accessor_callers(prog, names):
    """call sites of trait accessor methods that hand out &mut to a field: name -> {caller: line}"""
    out = collections.defaultdict(dict)
    for b in prog.bodies.values():
        for bi, t in b.calls():
            d, r, info = mirq.callee_of(t)
            if d and d.split("::")[-1] in names and info.get("local"):
                out[d.split("::")[-1]].setdefault(b.id, t.get("line"))
    return out
