"""A3: field effects - which bodies mutably borrow or assign which field of which local ADT."""
import collections
import mirq


def field_effects(prog):
    """(adt path, field name) -> {body id: first line}"""
    eff = collections.defaultdict(dict)
    for bid, b in prog.bodies.items():
        for bl in b.blocks:
            for s in bl["s"]:
                places = []
                rv = s.get("rv")
                if any(isinstance(e, dict) and "f" in e for e in s["p"]["p"]):
                    places.append(s["p"])
                if rv and rv.get("r") in ("ref", "rawptr") and str(rv.get("bk")).lower().startswith("mut"):
                    places.append(rv["p"])
                for pl in places:
                    for e in pl["p"]:
                        if isinstance(e, dict) and "f" in e and e.get("a") in prog.adts:
                            eff[(e["a"], e.get("n"))].setdefault(bid, s.get("line"))
    return eff


def param_field_effects(prog):
    """bodies that write a field of a local ADT *through a `&mut` parameter* (i.e. state owned by
    the caller): body id -> set of (adt, field)"""
    out = collections.defaultdict(set)
    for bid, b in prog.bodies.items():
        mutparams = set(i for i in range(1, b.argc + 1) if b.local_ty(i).startswith("&mut "))
        if not mutparams and "{closure" not in bid:
            continue
        # locals that alias (a part of) a &mut parameter: reborrows / copies of it
        alias = set(mutparams)
        if "{closure" in bid:
            alias.add(1)  # the closure environment may capture &mut state of the parent
        changed = True
        while changed:
            changed = False
            for bl in b.blocks:
                for s in bl["s"]:
                    rv = s.get("rv")
                    if not rv or s["p"]["p"]:
                        continue
                    src = None
                    if rv["r"] == "ref" and str(rv.get("bk")).lower().startswith("mut"):
                        src = rv["p"]["l"]
                    elif rv["r"] in ("use", "cast"):
                        q = mirq.op_place(rv["o"])
                        src = q["l"] if q else None
                    if src in alias and s["p"]["l"] not in alias and b.local_ty(s["p"]["l"]).startswith("&mut "):
                        alias.add(s["p"]["l"])
                        changed = True
        for bl in b.blocks:
            for s in bl["s"]:
                places = []
                rv = s.get("rv")
                if any(isinstance(e, dict) and "f" in e for e in s["p"]["p"]):
                    places.append(s["p"])
                if rv and rv.get("r") in ("ref", "rawptr") and str(rv.get("bk")).lower().startswith("mut"):
                    places.append(rv["p"])
                for pl in places:
                    if pl["l"] not in alias or "*" not in pl["p"]:
                        continue
                    for e in pl["p"]:
                        if isinstance(e, dict) and "f" in e and e.get("a") in prog.adts:
                            out[bid].add((e["a"], e.get("n")))
    return out


def accessor_callers(prog, names):
    """call sites of trait accessor methods that hand out &mut to a field: name -> {caller: line}"""
    out = collections.defaultdict(dict)
    for b in prog.bodies.values():
        for bi, t in b.calls():
            d, r, info = mirq.callee_of(t)
            if d and d.split("::")[-1] in names and info.get("local"):
                out[d.split("::")[-1]].setdefault(b.id, t.get("line"))
    return out
