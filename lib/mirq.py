"""Queries over the MIR fact file (see engines/stamfacts-mir): call graph with
class-hierarchy and callback edges, reachability, dominators, def-use, canonical value
keys, guards, panic sources, field effects."""
import re
from collections import defaultdict, deque


def place_str(p, body=None):
    s = "_%d" % p["l"]
    if body is not None:
        nm = body.local_name(p["l"])
        if nm:
            s = nm
    for e in p["p"]:
        if e == "*":
            s = "(*%s)" % s
        elif isinstance(e, dict):
            if "f" in e:
                s = "%s.%s" % (s, e.get("n", e["f"]))
            elif "d" in e:
                s = "(%s as %s)" % (s, e.get("n"))
            elif "i" in e:
                s = "%s[_%d]" % (s, e["i"])
            elif "ci" in e:
                s = "%s[%d]" % (s, e["ci"])
        else:
            s = "%s.%s" % (s, e)
    return s


def op_place(o):
    if "c" in o:
        return o["c"]
    if "m" in o:
        return o["m"]
    return None


def op_const(o):
    return o.get("k")


def callee_of(term):
    """(declared path, resolved path or None, info dict) of a call terminator"""
    f = term.get("func", {})
    k = f.get("k")
    if k and "f" in k:
        info = k["f"]
        return info["fn"], info.get("r"), info
    return None, None, None


class Body:
    def __init__(self, d):
        self.d = d
        self.id = d["id"]
        self.blocks = d["blocks"]
        self.locals = d["locals"]
        self.file = d.get("file")
        self.line = d.get("line")
        self.kind = d.get("kind")
        self.argc = d.get("argc", 0)
        self._succ = None
        self._pred = None
        self._dom = None
        self._defs = None
        self._reach = None

    def local_name(self, l):
        return self.locals[l].get("n")

    def local_ty(self, l):
        return self.locals[l]["ty"]

    # ---- CFG
    def succs(self, i):
        if self._succ is None:
            self._succ = []
            for b in self.blocks:
                t = b["t"]
                k = t["t"]
                s = []
                if k == "goto":
                    s = [t["target"]]
                elif k == "switch":
                    s = [x[1] for x in t["targets"]] + [t["otherwise"]]
                elif k in ("call", "drop", "assert"):
                    if "target" in t:
                        s = [t["target"]]
                self._succ.append(s)
        return self._succ[i]

    def preds(self, i):
        if self._pred is None:
            self._pred = [[] for _ in self.blocks]
            for j in range(len(self.blocks)):
                for s in self.succs(j):
                    self._pred[s].append(j)
        return self._pred[i]

    def reachable_blocks(self):
        if self._reach is None:
            seen = {0}
            st = [0]
            while st:
                x = st.pop()
                for s in self.succs(x):
                    if s not in seen:
                        seen.add(s)
                        st.append(s)
            self._reach = seen
        return self._reach

    def dominators(self):
        """idom-free simple iterative dominator sets (bodies are small)"""
        if self._dom is None:
            n = len(self.blocks)
            reach = self.reachable_blocks()
            allb = set(reach)
            dom = {i: set(allb) for i in reach}
            dom[0] = {0}
            order = self._rpo()
            changed = True
            while changed:
                changed = False
                for i in order:
                    if i == 0:
                        continue
                    ps = [p for p in self.preds(i) if p in reach]
                    if not ps:
                        continue
                    new = set.intersection(*[dom[p] for p in ps]) | {i}
                    if new != dom[i]:
                        dom[i] = new
                        changed = True
            self._dom = dom
        return self._dom

    def _rpo(self):
        seen = set()
        order = []

        def dfs(s):
            stack = [(s, iter(self.succs(s)))]
            seen.add(s)
            while stack:
                node, it = stack[-1]
                adv = False
                for nx in it:
                    if nx not in seen:
                        seen.add(nx)
                        stack.append((nx, iter(self.succs(nx))))
                        adv = True
                        break
                if not adv:
                    order.append(node)
                    stack.pop()
        dfs(0)
        order.reverse()
        return order

    def dominates(self, a, b):
        d = self.dominators()
        return b in d and a in d[b]

    def can_reach(self, a, b, avoid=()):
        """is there a CFG path a ->+ b (at least one edge) avoiding blocks in `avoid`"""
        seen = set()
        st = [s for s in self.succs(a)]
        while st:
            x = st.pop()
            if x in seen or x in avoid:
                continue
            if x == b:
                return True
            seen.add(x)
            st.extend(self.succs(x))
        return False

    # ---- def-use
    def defs(self):
        """local -> list of (bb, idx or 'term', kind, payload)"""
        if self._defs is None:
            d = defaultdict(list)
            for bi, b in enumerate(self.blocks):
                for si, s in enumerate(b["s"]):
                    if "rv" in s and not s["p"]["p"]:
                        d[s["p"]["l"]].append((bi, si, "assign", s["rv"]))
                    elif not s["p"]["p"]:
                        d[s["p"]["l"]].append((bi, si, "other", s))
                    else:
                        d[s["p"]["l"]].append((bi, si, "partial", s))
                t = b["t"]
                if t["t"] == "call" and "dest" in t and not t["dest"]["p"]:
                    d[t["dest"]["l"]].append((bi, "term", "call", t))
            self._defs = d
        return self._defs

    def single_def(self, l):
        ds = [x for x in self.defs().get(l, []) if x[2] != "partial"]
        if len(ds) == 1:
            return ds[0]
        return None

    def calls(self):
        for bi, b in enumerate(self.blocks):
            t = b["t"]
            if t["t"] == "call":
                yield bi, t

    # ---- provenance (flow-insensitive may-derive-from)
    def provenance(self, operand, limit=200):
        """set of callee names (declared paths) the value of an operand may derive from, walking
        back through every definition of the locals involved (copies, refs, fields, call args)"""
        seen_l = set()
        names = set()
        consts = set()
        work = []
        p = op_place(operand)
        if p is not None:
            work.append(p["l"])
        n = 0
        while work and n < limit:
            l = work.pop()
            if l in seen_l:
                continue
            seen_l.add(l)
            n += 1
            if 0 < l <= self.argc:
                names.add("arg%d" % l)
            for (bi, si, kind, payload) in self.defs().get(l, []):
                if kind == "call":
                    decl, res, info = callee_of(payload)
                    names.add(decl or "?")
                    for a in payload.get("args", []):
                        q = op_place(a)
                        if q is not None:
                            work.append(q["l"])
                elif kind == "assign":
                    rv = payload
                    for o in _operands_of_rvalue(rv):
                        q = op_place(o)
                        if q is not None:
                            work.append(q["l"])
                    if rv.get("p"):
                        work.append(rv["p"]["l"])
                elif kind == "partial":
                    rv = payload.get("rv")
                    if rv:
                        for o in _operands_of_rvalue(rv):
                            q = op_place(o)
                            if q is not None:
                                work.append(q["l"])
        return names

    # ---- canonical keys
    def key_of_operand(self, o, depth=0):
        """canonical expression key of an operand: follows copies/moves/refs of temporaries
        back to a user variable, argument, field path, constant or call result"""
        if "k" in o:
            k = o["k"]
            if "v" in k:
                return "const:%s" % k["v"]
            if "f" in k:
                return "fn:%s" % k["f"]["fn"]
            return "const:%s" % k.get("s", "?")
        p = op_place(o)
        if p is None:
            return "?"
        return self.key_of_place(p, depth)

    def key_of_place(self, p, depth=0):
        base = self.key_of_local(p["l"], depth)
        s = base
        for e in p["p"]:
            if e == "*":
                # derefs of references are transparent for value identity
                if s.startswith("&"):
                    s = s[1:]
                continue
            if isinstance(e, dict):
                if "f" in e:
                    s = "%s.%s" % (s, e.get("n", e["f"]))
                elif "d" in e:
                    s = "%s@%s" % (s, e.get("n"))
                elif "i" in e:
                    s = "%s[%s]" % (s, self.key_of_local(e["i"], depth + 1))
                elif "ci" in e:
                    s = "%s[%d]" % (s, e["ci"])
            else:
                s = "%s.%s" % (s, e)
        return s

    def key_of_local(self, l, depth=0):
        nm = self.local_name(l)
        if nm is not None:
            return nm
        if l == 0:
            return "<ret>"
        if l <= self.argc:
            return "arg%d" % l
        if depth > 12:
            return "_%d" % l
        sd = self.single_def(l)
        if sd is None:
            return "_%d" % l
        bi, si, kind, payload = sd
        if kind == "assign":
            rv = payload
            r = rv["r"]
            if r == "use":
                return self.key_of_operand(rv["o"], depth + 1)
            if r == "ref":
                return "&" + self.key_of_place(rv["p"], depth + 1)
            if r == "cast":
                return self.key_of_operand(rv["o"], depth + 1)
            if r == "bin":
                return "(%s %s %s)" % (self.key_of_operand(rv["a"], depth + 1), rv["op"], self.key_of_operand(rv["b"], depth + 1))
            if r == "un":
                return "(%s %s)" % (rv["op"], self.key_of_operand(rv["o"], depth + 1))
            if r == "discr":
                return "discr(%s)" % self.key_of_place(rv["p"], depth + 1)
            if r == "agg":
                return "agg:%s(%s)" % (rv.get("variant") or rv.get("ak"), ",".join(self.key_of_operand(o, depth + 1) for o in rv["ops"]))
            return "_%d" % l
        if kind == "call":
            t = payload
            decl, res, info = callee_of(t)
            name = (decl or res or "?")
            args = ",".join(self.key_of_operand(a, depth + 1) for a in t.get("args", []))
            return "%s(%s)" % (short_fn(name), args)
        return "_%d" % l


def ty_head(t):
    """head of a type string: references, lifetimes and generic arguments removed"""
    t = t.strip()
    while t.startswith("&"):
        t = t[1:].strip()
        t = re.sub(r"^'[a-z_0-9]+\s+", "", t)
        if t.startswith("mut "):
            t = t[4:]
    return t.split("<", 1)[0].strip()


def ty_norm(t):
    """type string without references and lifetimes (for comparing concrete instantiations)"""
    t = t.strip()
    t = re.sub(r"&('[a-z_0-9]+ )?(mut )?", "", t)
    t = re.sub(r"'[a-z_0-9]+(, )?", "", t)
    t = t.replace("<>", "")
    return t.replace(" ", "")


def short_fn(path):
    """compact callee name for keys: last two path segments without generics"""
    p = re.sub(r"<[^<>]*>", "", path)
    p = re.sub(r"<[^<>]*>", "", p)
    segs = [s for s in p.replace("<", "").replace(">", "").split("::") if s]
    return "::".join(segs[-2:])


PANIC_FNS = {
    "unwrap": re.compile(r"^(core|std)::(option::Option|result::Result)::<.*>::(unwrap|expect|unwrap_err|expect_err)$"),
}


class Program:
    def __init__(self, data):
        self.data = data
        self.bodies = {}
        for b in data["bodies"]:
            bd = Body(b)
            # closures may share def paths? they are unique (closure#n)
            self.bodies[bd.id] = bd
        self.impls = data["impls"]
        self.traits = {t["trait"]: t for t in data["traits"]}
        self.adts = {a["adt"]: a for a in data["adts"]}
        # (trait path, method name) -> [impl method def path]
        self.trait_impl_methods = defaultdict(list)
        # self type string -> list of (trait, [method defs])
        self.impls_by_self = defaultdict(list)
        for im in self.impls:
            for m in im["methods"]:
                self.trait_impl_methods[(im["trait"], m["name"])].append(m["def"])
            self.impls_by_self[im["self"]].append(im)
        self.local_traits = set(self.traits)
        self.impls_by_trait = defaultdict(list)
        for im in self.impls:
            self.impls_by_trait[im["trait"]].append(im)
        self._cbcache = {}
        self._sites = None
        self._inst = None
        self.trait_impl_methods_full = defaultdict(list)
        for im in self.impls:
            for m in im["methods"]:
                self.trait_impl_methods_full[(im["trait"], m["name"])].append((im, m["def"]))
        self.impl_heads = set(ty_head(im["self"]) for im in self.impls)
        self._edges = None
        self._local_type_names = None

    def body(self, bid):
        return self.bodies.get(bid)

    def find_bodies(self, pattern):
        rx = re.compile(pattern)
        return [b for k, b in self.bodies.items() if rx.search(k)]

    def one(self, pattern):
        r = self.find_bodies(pattern)
        if len(r) != 1:
            from core import AnchorMissing
            raise AnchorMissing("MIR body /%s/ (found %d)" % (pattern, len(r)))
        return r[0]

    # ---- call graph
    def local_type_names(self):
        if self._local_type_names is None:
            self._local_type_names = set(self.adts)
        return self._local_type_names

    def call_targets(self, body, term):
        """set of local body ids a call terminator may reach"""
        out = set()
        # closures created in this body and passed as arguments may be called by the callee
        for a in term.get("args", []):
            q = op_place(a)
            if q is not None and not q["p"]:
                sd = body.single_def(q["l"])
                if sd and sd[2] == "assign" and sd[3].get("r") == "agg" and sd[3].get("closure") in self.bodies:
                    out.add(sd[3]["closure"])
        decl, res, info = callee_of(term)
        if info is None:
            # indirect call through a fn pointer / closure value: over-approximate by the
            # closures and fn items created in this body (handled by callers of edges())
            return out
        rk = info.get("rk")
        if rk == "item" and info.get("rlocal"):
            if res in self.bodies:
                out.add(res)
            return out
        if rk in ("unresolved", "virtual", "error", "ice") or (rk == "item" and not info.get("rlocal") and info.get("trait") and res == decl):
            tr = info.get("trait")
            if tr:
                name = decl.split("::")[-1]
                allowed = self._allowed_impl_heads(body, info) if rk == "unresolved" else None
                for im, d in self.trait_impl_methods_full.get((tr, name), []):
                    if d not in self.bodies:
                        continue
                    if allowed is not None:
                        h = ty_head(im["self"])
                        if not (h in allowed or re.match(r"^[A-Z][A-Za-z0-9]*$", im["self"])):
                            continue
                    out.add(d)
                # default body of a local trait
                if decl in self.bodies:
                    out.add(decl)
                # a foreign implementation may call back through the bounds of the method's generics
                for tr2, self_ty in ([] if tr in self.local_traits else info.get("preds", [])):
                    if tr2 == tr or ty_head(self_ty) not in self.impl_heads:
                        continue  # only concrete local types (a bare type parameter is handled by the instantiation sets)
                    for cb in self._callbacks_for(tr2, self_ty):
                        out.add(cb)
            return out
        if rk in ("closure_once_shim", "fnptr_shim", "reify_shim"):
            if res in self.bodies:
                out.add(res)
            return out
        # foreign callee: it can call back only through the trait bounds of its generic
        # parameters; `preds` lists them instantiated with this call's arguments
        if rk == "item" and not info.get("rlocal"):
            for tr, self_ty in info.get("preds", []):
                for cb in self._callbacks_for(tr, self_ty):
                    out.add(cb)
        return out

    # ---- instantiation sets of type parameters (context-insensitive, whole program)
    def type_params(self, body):
        return [g for g in body.d.get("generics", []) if not g.startswith("'") and not g.startswith("<")]

    def parent_fn(self, bid):
        while "::{closure#" in bid:
            bid = bid[:bid.rindex("::{closure#")]
        return bid

    def inst(self):
        """inst[body id][type param] = set of type strings the parameter is instantiated with
        at call sites anywhere in the crate (transitively through generic callers)"""
        if self._inst is not None:
            return self._inst
        inst = defaultdict(lambda: defaultdict(set))
        deps = []  # (callee, param, caller, caller_param)
        for b in self.bodies.values():
            bparams = self.type_params(self.bodies.get(self.parent_fn(b.id), b))
            bowner = self.parent_fn(b.id)
            for bi, t in b.calls():
                decl, res, info = callee_of(t)
                if info is None or info.get("rk") != "item" or not info.get("rlocal") or res not in self.bodies:
                    continue
                gen = self.bodies[res].d.get("generics", [])
                args = info.get("rga") or info.get("ga") or []
                if len(gen) != len(args):
                    continue
                for name, arg in zip(gen, args):
                    if name.startswith("'") or name.startswith("<"):
                        continue
                    inst[res][name].add(arg)
                    for q in bparams:
                        if re.search(r"(^|[^A-Za-z0-9_])%s($|[^A-Za-z0-9_])" % re.escape(q), arg):
                            deps.append((res, name, bowner, q))
        changed = True
        n = 0
        while changed and n < 50:
            changed = False
            n += 1
            for (f, name, caller, q) in deps:
                src = inst[caller].get(q)
                if src:
                    before = len(inst[f][name])
                    inst[f][name] |= src
                    if len(inst[f][name]) != before:
                        changed = True
        self._inst = inst
        return inst

    def _allowed_impl_heads(self, body, info):
        """heads of local impl self types an unresolved trait call in `body` can dispatch to,
        given what the type parameters mentioned in its self type are instantiated with;
        None = unknown (fall back to the class hierarchy)"""
        selfty = info.get("self") or ""
        owner = self.bodies.get(self.parent_fn(body.id), body)
        params = [q for q in self.type_params(owner) if re.search(r"(^|[^A-Za-z0-9_])%s($|[^A-Za-z0-9_])" % re.escape(q), selfty)]
        if not params:
            return None
        inst = self.inst()
        strings = []
        for q in params:
            s = inst.get(owner.id, {}).get(q)
            if not s:
                return None
            strings.extend(s)
        # an instantiation that is itself an uninstantiated parameter of a root: unknown
        allowed = set()
        for h in self.impl_heads:
            if h and any(h in st for st in strings):
                allowed.add(h)
        return allowed

    def _callbacks_for(self, trait, self_ty):
        key = (trait, self_ty)
        c = self._cbcache.get(key)
        if c is not None:
            return c
        out = []
        ims = self.impls_by_trait.get(trait, ())
        if ims:
            h = ty_head(self_ty)
            ns = ty_norm(self_ty)
            for im in ims:
                ih = ty_head(im["self"])
                if re.match(r"^[A-Z][A-Za-z0-9]*$", im["self"]):
                    ok = True  # blanket impl
                elif ih != h:
                    ok = False
                else:
                    ni = ty_norm(im["self"])
                    generic_i = re.search(r"(^|[<,( ])[A-Z][A-Za-z0-9]?($|[>,) ])", ni) is not None
                    generic_s = re.search(r"(^|[<,( ])[A-Z][A-Za-z0-9]?($|[>,) ])", ns) is not None
                    ok = True if (generic_i or generic_s) else (ni == ns)
                if ok:
                    for m in im["methods"]:
                        out.append(m["def"])
        self._cbcache[key] = out
        return out

    def edges(self):
        if self._edges is None:
            e = defaultdict(set)
            for bid, b in self.bodies.items():
                for bi, t in b.calls():
                    for tgt in self.call_targets(b, t):
                        e[bid].add(tgt)
                # closures and fn items mentioned anywhere in the body
                for blk in b.blocks:
                    for s in blk["s"]:
                        rv = s.get("rv")
                        if not rv:
                            continue
                        if rv.get("r") == "agg" and rv.get("closure"):
                            if rv["closure"] in self.bodies:
                                e[bid].add(rv["closure"])
                        for o in _operands_of_rvalue(rv):
                            k = o.get("k")
                            if k and "f" in k:
                                r = k["f"].get("r") or k["f"]["fn"]
                                if r in self.bodies:
                                    e[bid].add(r)
                            if k and k.get("closure") in self.bodies:
                                e[bid].add(k["closure"])
                    t = blk["t"]
                    if t["t"] == "call":
                        for o in t.get("args", []):
                            k = o.get("k")
                            if k and "f" in k:
                                r = k["f"].get("r") or k["f"]["fn"]
                                if r in self.bodies:
                                    e[bid].add(r)
                                else:
                                    # a trait method passed as a function value
                                    tr = k["f"].get("trait")
                                    if tr:
                                        for d in self.trait_impl_methods.get((tr, k["f"]["fn"].split("::")[-1]), []):
                                            e[bid].add(d)
                            if k and k.get("closure") in self.bodies:
                                e[bid].add(k["closure"])
            self._edges = e
        return self._edges

    def call_sites_of(self, bid):
        """all (caller body, block index, terminator) whose call may reach body `bid`"""
        if self._sites is None:
            self._sites = defaultdict(list)
            for b in self.bodies.values():
                for bi, t in b.calls():
                    for tgt in self.call_targets(b, t):
                        self._sites[tgt].append((b, bi, t))
        return self._sites.get(bid, [])

    def reachable(self, roots):
        e = self.edges()
        seen = set()
        parent = {}
        dq = deque()
        for r in roots:
            if r in self.bodies and r not in seen:
                seen.add(r)
                parent[r] = None
                dq.append(r)
        while dq:
            x = dq.popleft()
            for y in e.get(x, ()):
                if y not in seen:
                    seen.add(y)
                    parent[y] = x
                    dq.append(y)
        return seen, parent

    def path_to(self, parent, x):
        p = []
        while x is not None:
            p.append(x)
            x = parent.get(x)
        p.reverse()
        return p


def _operands_of_rvalue(rv):
    for k in ("o", "a", "b"):
        if k in rv and isinstance(rv[k], dict):
            yield rv[k]
    for o in rv.get("ops", []):
        yield o


def undelegated_results(body, through):
    """for a function that is meant to answer through a call in `through` (a set of block indices): the places where it
    gives its result another way.  Returns [(block, description, line)] for every assignment of the return place - or
    call writing it - that is reachable from the entry without passing a `through` block and is not the constant false
    (the 'different resource / nothing to compare' answer)."""
    reach = set()
    stack = [0]
    while stack:
        x = stack.pop()
        if x in reach or x in through:
            continue
        reach.add(x)
        for y in body.succs(x):
            stack.append(y)
    out = []
    for bi in sorted(reach):
        blk = body.blocks[bi]
        for s_ in blk["s"]:
            if s_["p"]["l"] == 0 and not s_["p"]["p"]:
                rv = s_.get("rv") or {}
                k = None
                if rv.get("o"):
                    k = str(body.key_of_operand(rv["o"]))
                elif rv.get("r") in ("un", "bin", "cast", "agg", "ref"):
                    k = rv.get("r")
                if k in ("const:false", "const:0"):
                    continue
                # a copy of a local that only ever holds the through-call's result cannot be reached here (the call block is excluded)
                out.append((bi, k or "?", s_.get("line")))
        t = blk["t"]
        if t["t"] == "call" and (t.get("dest") or {}).get("l") == 0 and not t["dest"]["p"]:
            out.append((bi, "call:" + short_fn(callee_of(t)[0] or "?"), t.get("line")))
    return out
