"""A2: panic sources in MIR bodies, stable keys, and the discharge idioms."""
import re
from collections import defaultdict
from mirq import callee_of, short_fn, op_place

RX_UNWRAP = re.compile(r"^(core|std)::(option::Option|result::Result)::<[^>]*>::(unwrap|expect|unwrap_err|expect_err|unwrap_unchecked)$")
RX_PANIC = re.compile(r"^(core|std)::(panicking::|rt::begin_panic|rt::panic_fmt|process::(exit|abort)|option::expect_failed|result::unwrap_failed|slice::index::slice_|str::slice_error_fail|intrinsics::abort|hint::unreachable_unchecked)")
RX_INDEX = re.compile(r"::ops::(index::)?Index(Mut)?::index(_mut)?$")
VEC_PANIC_METHODS = {
    "remove", "insert", "swap_remove", "drain", "split_off", "splice", "swap", "split_at", "split_at_mut", "copy_from_slice",
    "clone_from_slice", "insert_str", "replace_range", "rotate_left", "rotate_right", "chunks", "chunks_exact", "windows", "step_by",
    "truncate_front", "select_nth_unstable", "copy_within", "insert_many", "from_digit",
}
RX_CONTAINER = re.compile(r"^(alloc|std|core|smallvec)::(vec::Vec|string::String|collections::(vec_deque::)?VecDeque|str|slice|smallvec::SmallVec|SmallVec)\b|^core::(str|slice)::<impl|^alloc::(str|slice)::<impl|^smallvec::")


def classify_call(term):
    """returns (kind, what) if the call terminator is a panic source, else None"""
    decl, res, info = callee_of(term)
    if info is None:
        return None
    name = decl
    if RX_UNWRAP.match(name):
        return ("unwrap", name.split("::")[-1])
    if RX_PANIC.match(name) or RX_PANIC.match(res or ""):
        return ("panic", short_fn(name))
    if RX_INDEX.search(name):
        ga = info.get("ga", [])
        st = ga[0] if ga else "?"
        it = ga[1] if len(ga) > 1 else "?"
        return ("index", "%s[%s]" % (simplify_ty(st), simplify_ty(it)))
    if re.match(r"^core::num::<impl (isize|i8|i16|i32|i64|i128)>::abs$", name):
        # the absolute value of the most negative number does not exist: overflow panic where overflow checks are on
        return ("overflow", "abs")
    last = name.split("::")[-1]
    if last in VEC_PANIC_METHODS and not info.get("local") and RX_CONTAINER.search(name):
        if last == "truncate":
            return None
        return ("container", short_fn(name))
    return None


def simplify_ty(t):
    t = re.sub(r"'[a-z_0-9]+ ?", "", t)
    t = re.sub(r"\b(std|core|alloc)::([a-z_]+::)*", "", t)
    t = t.replace("&mut ", "").replace("&", "")
    return t


def macro_of(term):
    exp = term.get("exp") or []
    for e in exp:
        m = re.match(r"^(\w+)$", e.replace("macro ", "").replace("!", "").strip("`"))
    # exp entries look like 'unreachable', 'panic', 'format_args' ...
    names = [re.sub(r"[^A-Za-z_:]", "", e.split()[-1]) for e in exp]
    for n in names:
        if n in ("unreachable", "todo", "unimplemented", "panic", "assert", "assert_eq", "assert_ne", "debug_assert", "debug_assert_eq", "debug_assert_ne"):
            return n
    return names[0] if names else None


def producer(body, operand, depth=0):
    """name of the callee that produced the value of an operand (through copies/moves)"""
    p = op_place(operand)
    while p is not None and depth < 10:
        sd = body.single_def(p["l"])
        if sd is None:
            nm = body.local_name(p["l"])
            return "var" if nm else ("arg" if 0 < p["l"] <= body.argc else "?")
        bi, si, kind, payload = sd
        if kind == "call":
            decl, res, info = callee_of(payload)
            return short_fn(decl or "?")
        if kind == "assign":
            rv = payload
            if rv["r"] in ("use", "cast"):
                p = op_place(rv["o"])
                if p is None:
                    return "const"
                depth += 1
                continue
            if rv["r"] == "ref":
                p = rv["p"]
                depth += 1
                continue
            if rv["r"] == "agg":
                return "agg:%s" % (rv.get("variant") or rv.get("ak"))
            return rv["r"]
        return "?"
    return "?"


def sources(body):
    """all panic sources of a body: list of dicts with stable keys (no line numbers, no local names)"""
    out = []
    for bi, b in enumerate(body.blocks):
        if b.get("cleanup"):
            continue
        t = b["t"]
        if t["t"] == "assert":
            if t["msg"] in ("ptr_misaligned", "ptr_null", "invalid_enum"):
                continue  # compiler-inserted UB checks of debug builds, not panics of the program logic
            out.append({"kind": "assert", "what": t["msg"], "bb": bi, "line": t.get("line"), "term": t, "exp": t.get("exp")})
        elif t["t"] == "call":
            c = classify_call(t)
            if c:
                kind, what = c
                if kind == "unwrap" and t.get("args"):
                    what = "%s<-%s" % (what, producer(body, t["args"][0]))
                if kind == "panic":
                    m = macro_of(t)
                    if m:
                        what = m + "!"
                out.append({"kind": kind, "what": what, "bb": bi, "line": t.get("line"), "term": t, "exp": t.get("exp")})
    # ordinals among identical (kind, what), in source order
    groups = defaultdict(list)
    for s in out:
        groups[(s["kind"], s["what"])].append(s)
    for (k, w), lst in groups.items():
        lst.sort(key=lambda s: (s["line"] or 0, s["bb"]))
        for i, s in enumerate(lst):
            s["key"] = "%s|%s:%s#%d" % (body.id, k, w, i + 1)
            s["group_size"] = len(lst)
    return out


# ------------------------------------------------------------------ reaching definitions
def defs_of_local_in_block(body, l, bi, upto=None):
    """definitions of local l in block bi (statement indexes < upto; the terminator's call
    destination counts when upto is None), last one first"""
    b = body.blocks[bi]
    out = []
    if upto is None:
        t = b["t"]
        if t["t"] == "call" and t.get("dest", {}).get("l") == l and not t["dest"]["p"]:
            out.append((bi, "term", "call", t))
    n = len(b["s"]) if upto is None or upto == "term" else upto
    for si in range(n - 1, -1, -1):
        s = b["s"][si]
        if s["p"]["l"] == l:
            if not s["p"]["p"]:
                out.append((bi, si, "assign" if "rv" in s else "other", s.get("rv", s)))
            else:
                out.append((bi, si, "partial", s))
    return out


def reaching_defs(body, l, bi, idx):
    """set of definitions of local l that may reach program point (bi, idx) (idx = statement
    index or 'term'); the pseudo definition 'entry' stands for the value on function entry"""
    res = []
    seen = set()
    first = defs_of_local_in_block(body, l, bi, idx)
    first = [d for d in first if d[2] != "partial"]
    if first:
        return [first[0]]
    stack = list(body.preds(bi))
    if bi == 0:
        res.append("entry")
    while stack:
        x = stack.pop()
        if x in seen:
            continue
        seen.add(x)
        ds = [d for d in defs_of_local_in_block(body, l, x, None) if d[2] != "partial"]
        if ds:
            if ds[0] not in res:
                res.append(ds[0])
            continue
        if x == 0:
            if "entry" not in res:
                res.append("entry")
        stack.extend(body.preds(x))
    return res


def redefined_between(body, l, from_bb, to_bb):
    """may local l be assigned on a path that starts right after the terminator of from_bb
    (the call that established the fact's subject) and ends just before the terminator of
    to_bb?"""
    fwd = set()
    st = list(body.succs(from_bb))
    t0 = body.blocks[from_bb]["t"]
    if t0["t"] == "call" and t0.get("dest", {}).get("l") == l:
        return True
    while st:
        x = st.pop()
        if x in fwd or x == from_bb:
            continue  # a path that re-enters from_bb re-establishes the fact there
        fwd.add(x)
        if x != to_bb:
            st.extend(body.succs(x))
    # blocks that can reach to_bb without passing through from_bb
    bwd = set()
    st = [to_bb]
    while st:
        x = st.pop()
        if x in bwd or (x == from_bb and x != to_bb):
            continue
        bwd.add(x)
        st.extend(p for p in body.preds(x))
    between = fwd & bwd
    # a cycle through to_bb: to_bb's successors may lead back; handled since fwd stops at to_bb
    for x in between:
        upto = "term" if x == to_bb else None
        for d in defs_of_local_in_block(body, l, x, upto):
            return True
    return False


def root_local(body, o, depth=0):
    """the named local / argument an operand's value is (a reference to), through temporaries"""
    p = op_place(o) if not ("l" in o and "p" in o) else o
    while p is not None and depth < 12:
        l = p["l"]
        if body.local_name(l) is not None or 0 < l <= body.argc:
            # only plain derefs allowed on the way
            if all(e == "*" for e in p["p"]):
                return l
            return None
        if any(e != "*" for e in p["p"]):
            return None
        sd = body.single_def(l)
        if sd is None:
            return None
        _, _, kind, payload = sd
        if kind != "assign":
            return None
        rv = payload
        if rv["r"] in ("use", "cast"):
            p = op_place(rv["o"])
        elif rv["r"] == "ref":
            p = rv["p"]
        else:
            return None
        depth += 1
    return None


def const_str(o):
    k = o.get("k")
    if k and k.get("ty", "").replace("'static ", "") in ("&str",) and isinstance(k.get("s"), str):
        s = k["s"]
        if s.startswith("const "):
            s = s[6:]
        if len(s) >= 2 and s[0] == '"' and s[-1] == '"':
            try:
                return bytes(s[1:-1], "utf8").decode("unicode_escape").encode("latin1").decode("utf8")
            except Exception:
                return s[1:-1]
    return None


def operand_const_str(body, o, depth=0):
    """string literal an operand refers to (through temporaries), else None"""
    c = const_str(o)
    if c is not None:
        return c
    p = op_place(o)
    while p is not None and depth < 8:
        if body.local_name(p["l"]) is not None and len(body.defs().get(p["l"], [])) != 1:
            return None
        sd = body.single_def(p["l"])
        if sd is None:
            return None
        _, _, kind, payload = sd
        if kind != "assign":
            return None
        rv = payload
        if rv["r"] in ("use", "cast"):
            c = const_str(rv["o"])
            if c is not None:
                return c
            p = op_place(rv["o"])
        elif rv["r"] == "ref":
            p = rv["p"]
        else:
            return None
        depth += 1
    return None


def int_value(body, o, bb, idx, depth=0):
    """abstract integer value of an operand at a program point:
    ('const', n) | ('strlen', lit) | ('sum', [values]) | None"""
    k = o.get("k")
    if k:
        if isinstance(k.get("v"), int):
            return ("const", k["v"])
        return None
    p = op_place(o)
    if p is None or p["p"] or depth > 8:
        return None
    l = p["l"]
    rds = reaching_defs(body, l, bb, idx)
    if len(rds) != 1 or rds[0] == "entry":
        return None
    dbi, dsi, kind, payload = rds[0]
    if kind == "assign":
        rv = payload
        if rv["r"] in ("use", "cast"):
            return int_value(body, rv["o"], dbi, dsi, depth + 1)
        if rv["r"] == "bin" and rv["op"] in ("Add", "AddWithOverflow"):
            a = int_value(body, rv["a"], dbi, dsi, depth + 1)
            b = int_value(body, rv["b"], dbi, dsi, depth + 1)
            if a and b and a[0] == "const" and b[0] == "const":
                return ("const", a[1] + b[1])
            return None
        return None
    if kind == "call":
        decl, res, info = callee_of(payload)
        if (decl or "").endswith("str>::len") and payload.get("args"):
            lit = operand_const_str(body, payload["args"][0])
            if lit is not None:
                return ("strlen", lit)
        return None
    return None


def tuple_field_of_checked(body, o):
    """`_x = AddWithOverflow(..)`; the value used is `(_x.0)`: map the operand back to its tuple"""
    return None


def prefix_facts(body):
    """facts 'string S (root local L) begins with the ASCII literal LIT' established on the
    true edge of a comparison: (true_target_bb, L, LIT, origin_bb)"""
    out = []
    for bi, b in enumerate(body.blocks):
        t = b["t"]
        if t["t"] != "switch" or t.get("dty") != "bool":
            continue
        p = op_place(t["o"])
        if p is None or p["p"]:
            continue
        sd = body.single_def(p["l"])
        if sd is None or sd[2] != "call":
            continue
        cbi, _, _, call = sd
        decl, res, info = callee_of(call)
        name = res or decl or ""
        tv = dict((v, tg) for v, tg in t["targets"])
        if 0 in tv:
            true_t = t["otherwise"]
        elif 1 in tv:
            true_t = tv[1]
        else:
            continue
        args = call.get("args", [])
        if name.endswith("::eq") and "PartialEq" in name and "str" in name and len(args) == 2:
            for a, c in ((args[0], args[1]), (args[1], args[0])):
                lit = operand_const_str(body, c)
                if lit is None:
                    continue
                # a must be the first token of a split over S: next(split(S, ..))@Some.0, or S itself
                src = first_token_source(body, a)
                if src is not None:
                    L, origin = src
                    out.append((true_t, L, lit, origin, "first token == %r" % lit))
        elif name.endswith("::starts_with") and len(args) == 2:
            lit = operand_const_str(body, args[1])
            L = root_local(body, args[0])
            if lit is not None and L is not None:
                out.append((true_t, L, lit, cbi, "starts_with(%r)" % lit))
    return out


def first_token_source(body, o, depth=0):
    """if operand o is `S.split(..).next()` unwrapped (Some.0), return (root local of S, bb of the split call)"""
    p = op_place(o)
    while p is not None and depth < 10:
        l = p["l"]
        proj = [e for e in p["p"] if e != "*"]
        sd = body.single_def(l)
        if sd is None:
            return None
        bi, si, kind, payload = sd
        if kind == "call":
            decl, res, info = callee_of(payload)
            nm = res or decl or ""
            if nm.endswith("::next") and "Split" in nm and payload.get("args"):
                # the iterator: &mut _it where _it = str::split(S, pat)
                q = op_place(payload["args"][0])
                for _ in range(6):
                    if q is None:
                        return None
                    sd2 = body.single_def(q["l"])
                    if sd2 is None:
                        return None
                    bi2, si2, kind2, payload2 = sd2
                    if kind2 == "call":
                        d2, r2, _ = callee_of(payload2)
                        if (d2 or "").endswith("str>::split") and payload2.get("args"):
                            L = root_local(body, payload2["args"][0])
                            if L is not None:
                                return (L, bi2)
                        return None
                    if kind2 == "assign" and payload2["r"] == "ref":
                        q = payload2["p"]
                    elif kind2 == "assign" and payload2["r"] in ("use",):
                        q = op_place(payload2["o"])
                    else:
                        return None
                return None
            return None
        if kind == "assign":
            rv = payload
            if rv["r"] in ("use", "cast"):
                p = op_place(rv["o"])
            elif rv["r"] == "ref":
                p = rv["p"]
            else:
                return None
        else:
            return None
        depth += 1
    return None


def is_ascii(s):
    return all(ord(c) < 128 for c in s)


def caller_prefix(prog, body, L, n, src_bb):
    """interprocedural form: S is a parameter that is unmodified up to the slice, and every
    local call site passes a string for which a dominating prefix fact holds"""
    if prog is None or not (0 < L <= body.argc):
        return None
    rds = reaching_defs(body, L, src_bb, "term")
    if rds != ["entry"]:
        return None
    sites = prog.call_sites_of(body.id)
    if not sites:
        return None
    whys = []
    for cb, bi, t in sites:
        args = t.get("args", [])
        if len(args) < L:
            return None
        L2 = root_local(cb, args[L - 1])
        if L2 is None:
            return None
        ok = None
        for (tt, L3, lit, origin, why) in prefix_facts_cached(cb):
            if L3 != L2 or not (cb.dominates(tt, bi) and len(cb.preds(tt)) == 1):
                continue
            nb = len(lit.encode("utf8"))
            if (not is_ascii(lit) and n != nb) or n > nb:
                continue
            if redefined_between(cb, L2, origin, bi):
                continue
            ok = why
            break
        if ok is None:
            return None
        whys.append("%s: %s" % (short_fn(cb.id), ok))
    return "slice at %d bytes of a parameter; every caller establishes the prefix (%s)" % (n, "; ".join(whys))


_PF = {}


def prefix_facts_cached(body):
    k = id(body)
    if k not in _PF:
        _PF[k] = prefix_facts(body)
    return _PF[k]


def slice_discharge(body, src, pfacts, prog=None):
    """str slicing S[N..] is safe when a dominating fact says S begins with an ASCII literal
    of at least N bytes and S is not reassigned in between"""
    t = src["term"]
    args = t.get("args", [])
    if len(args) != 2:
        return None
    L = root_local(body, args[0])
    if L is None:
        return None
    rp = op_place(args[1])
    if rp is None:
        return None
    sd = body.single_def(rp["l"])
    if sd is None or sd[2] != "assign" or sd[3].get("r") != "agg" or sd[3].get("variant") != "RangeFrom":
        return None
    dbi, dsi, _, rv = sd
    val = int_value(body, rv["ops"][0], dbi, dsi)
    if val is None:
        return None
    n = val[1] if val[0] == "const" else len(val[1].encode("utf8"))
    for (tt, L2, lit, origin, why) in pfacts:
        if L2 != L:
            continue
        if not (body.dominates(tt, src["bb"]) and len(body.preds(tt)) == 1):
            continue
        if not is_ascii(lit) and n != len(lit.encode("utf8")):
            continue
        if n > len(lit.encode("utf8")):
            continue
        if redefined_between(body, L, origin, src["bb"]):
            continue
        return "slice at %d bytes after %s on the same, unmodified string" % (n, why)
    return caller_prefix(prog, body, L, n, src["bb"])


# ------------------------------------------------------------------ discharge idioms
def cmp_facts(body):
    """for each switch on a comparison / is_some-style test: list of
    (switch_bb, true_target, false_target, fact) where fact = (op, keyA, keyB) or ('is_some', key)"""
    facts = []
    for bi, b in enumerate(body.blocks):
        t = b["t"]
        if t["t"] != "switch":
            continue
        p = op_place(t["o"])
        if p is None or p["p"]:
            continue
        sd = body.single_def(p["l"])
        if sd is None:
            continue
        _, _, kind, payload = sd
        tv = dict((v, tg) for v, tg in t["targets"])
        # bool switch: targets [[0, false_bb]], otherwise true_bb
        if t.get("dty") != "bool":
            continue
        if 0 in tv:
            false_t, true_t = tv[0], t["otherwise"]
        elif 1 in tv:
            true_t, false_t = tv[1], t["otherwise"]
        else:
            continue
        neg = False
        while kind == "assign" and payload["r"] == "un" and payload["op"] == "Not":
            q = op_place(payload["o"])
            if q is None:
                break
            sd2 = body.single_def(q["l"])
            if sd2 is None:
                break
            _, _, kind, payload = sd2
            neg = not neg
        if neg:
            true_t, false_t = false_t, true_t
        if kind == "assign" and payload["r"] == "bin" and payload["op"] in ("Lt", "Le", "Gt", "Ge", "Eq", "Ne"):
            facts.append((bi, true_t, false_t, (payload["op"], body.key_of_operand(payload["a"]), body.key_of_operand(payload["b"]))))
        elif kind == "call":
            decl, res, info = callee_of(payload)
            last = (decl or "").split("::")[-1]
            if last in ("is_some", "is_ok", "is_none", "is_err", "is_empty", "starts_with", "is_char_boundary", "contains_key", "ends_with") and payload.get("args"):
                ks = [body.key_of_operand(a) for a in payload["args"]]
                facts.append((bi, true_t, false_t, (last,) + tuple(ks)))
    return facts


def holds_at(body, bb, facts):
    """facts that hold on entry to bb: the true (or false) edge target dominates bb and the
    edge target is only entered through that edge"""
    out = []
    for (sbi, tt, ft, fact) in facts:
        if tt != ft:
            if body.dominates(tt, bb) and len(body.preds(tt)) == 1:
                out.append((True, fact))
            if body.dominates(ft, bb) and len(body.preds(ft)) == 1:
                out.append((False, fact))
    return out


def norm_key(k):
    return k.lstrip("&")


def insert_at_search_result(body, t):
    """v.insert(pos, x) where pos is the Err (or Ok) payload of v.binary_search*(..): 0 <= pos <= v.len() by the contract
    of binary_search, so the insertion cannot be out of bounds (the search result is consumed straight away: the
    statement that binds pos and the insertion are the two arms' only use of it)"""
    p = op_place(t["args"][1])
    depth = 0
    while p is not None and not p["p"] and depth < 6:
        ds = [d for d in body.defs().get(p["l"], []) if d[2] != "partial"]
        if len(ds) != 1 or ds[0][2] != "assign" or ds[0][3]["r"] != "use":
            return None
        p = op_place(ds[0][3]["o"])
        depth += 1
    if p is None:
        return None
    proj = p["p"]
    if not (len(proj) == 2 and isinstance(proj[0], dict) and proj[0].get("n") in ("Err", "Ok") and isinstance(proj[1], dict) and proj[1].get("f") == 0):
        return None
    sd = body.single_def(p["l"])
    if sd is None or sd[2] != "call":
        return None
    decl, res, info = callee_of(sd[3])
    if not re.search(r"::binary_search(_by|_by_key)?$", decl or "") or not sd[3].get("args"):
        return None

    def base(k):
        k = norm_key(k)
        m = re.match(r"^(Deref::deref|DerefMut::deref_mut|Cow::to_mut|Vec::as_slice|Vec::as_mut_slice|SmallVec::as_slice)\(&?(.*)\)$", k)
        while m:
            k = norm_key(m.group(2))
            m = re.match(r"^(Deref::deref|DerefMut::deref_mut|Cow::to_mut|Vec::as_slice|Vec::as_mut_slice|SmallVec::as_slice)\(&?(.*)\)$", k)
        return k
    searched = base(body.key_of_operand(sd[3]["args"][0]))
    target = base(body.key_of_operand(t["args"][0]))
    if searched == target and searched not in ("?", ""):
        return "insertion index is the result of binary_search on the same vector (%s): within 0..=len" % searched
    return None


def discharged(body, src, facts=None, prog=None):
    """returns a reason string if an idiom proves the panic source dead, else None"""
    t = src["term"]
    kind = src["kind"]
    facts = facts if facts is not None else cmp_facts(body)
    here = holds_at(body, src["bb"], facts)
    if kind == "assert":
        msg = t["msg"]
        ops = t.get("mops", [])
        if msg == "overflow_add" and len(ops) == 2:
            for o in ops:
                k = o.get("k")
                if k and isinstance(k.get("v"), int) and abs(k["v"]) <= 4096:
                    return "addition of a small constant to a length/counter (cannot reach usize::MAX)"
            return None
        if msg == "overflow_sub" and len(ops) == 2:
            a, b = body.key_of_operand(ops[0]), body.key_of_operand(ops[1])
            for pol, f in here:
                if len(f) == 3 and f[0] in ("Lt", "Le", "Gt", "Ge"):
                    op, x, y = f
                    if not pol:
                        op = {"Lt": "Ge", "Le": "Gt", "Gt": "Le", "Ge": "Lt"}[op]
                    # a >= b or a > b
                    if (op in ("Ge", "Gt") and norm_key(x) == norm_key(a) and norm_key(y) == norm_key(b)) or \
                       (op in ("Le", "Lt") and norm_key(x) == norm_key(b) and norm_key(y) == norm_key(a)):
                        return "subtraction guarded by a dominating comparison %s %s %s" % (x, op, y)
            # constant - ?  or x - 0
            kb = ops[1].get("k")
            if kb and kb.get("v") == 0:
                return "subtracting zero"
            return None
        if msg in ("div_zero", "rem_zero") and ops:
            k = ops[0].get("k")
            if k and isinstance(k.get("v"), int) and k["v"] != 0:
                return "division by a non-zero constant"
            d = body.key_of_operand(ops[0])
            for pol, f in here:
                if len(f) == 3:
                    op, x, y = f
                    if not pol:
                        op = {"Lt": "Ge", "Le": "Gt", "Gt": "Le", "Ge": "Lt", "Eq": "Ne", "Ne": "Eq"}[op]
                    if (op == "Gt" and norm_key(x) == norm_key(d) and y == "const:0") or (op == "Lt" and norm_key(y) == norm_key(d) and x == "const:0") or \
                       (op == "Ne" and norm_key(x) == norm_key(d) and y == "const:0"):
                        return "divisor guarded non-zero"
            return None
        if msg == "bounds" and len(ops) == 2:
            k = ops[1].get("k")
            # fixed-size array with constant index is checked at compile time; slices are not
            return None
        return None
    if kind == "index" and src["what"].startswith("str["):
        return slice_discharge(body, src, prefix_facts_cached(body), prog)
    if kind == "container" and src["what"].split("::")[-1] == "insert" and len(t.get("args", [])) >= 2:
        return insert_at_search_result(body, t)
    if kind == "unwrap":
        if not t.get("args"):
            return None
        x = norm_key(body.key_of_operand(t["args"][0]))
        # unwrap of `opt.as_ref()` / `opt.as_mut()` / `opt.map(f)` is guarded by a test on `opt`
        xs = {x}
        m = re.match(r"^Option::(as_ref|as_mut|as_deref|as_deref_mut|map|copied|cloned)\(&?(.*?)(,fn:.*|,agg:.*)?\)$", x)
        if m:
            xs.add(norm_key(m.group(2)))
        for pol, f in here:
            if len(f) == 2:
                name, k = f
                k = norm_key(k)
                if k in xs and ((pol and name in ("is_some", "is_ok")) or (not pol and name in ("is_none", "is_err"))):
                    return "unwrap dominated by %s%s on the same value" % ("" if pol else "!", name)
        return None
    return None
