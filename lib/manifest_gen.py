"""Regenerates MANIFEST.json from the table below (run after adding a property module)."""
import json
import os

VERIF = os.path.dirname(os.path.dirname(os.path.abspath(__file__)))

# pid -> (category, technique, text, note, design_ref, engines)
CHECKS = {
    "C11": ("other", "schema table agreement over derive attributes (syn AST) + wire-shape symmetry of helper pairs",
            "Decides the schema-level necessary conditions of the CBOR round trip for every store: each encoded type is also decoded, every field of every encoded type has a unique index or is one of three run-time dirty flags (so no index or store is dropped or rebuilt), custom encode/decode helpers are wire-symmetric, and from_cbor_file changes nothing after decoding except two copied settings. Value-level equality is not decided. ORDER: custom CBOR helpers write and read collections in their own order (no sort/reverse/filter/dedup).",
            "trusts minicbor's derive macros and syn; value equality of the reloaded store is not decided",
            "DESIGN.md section 4 C11", "syn+mir"),
    "C13": ("proof", "formula extraction from the syntax tree + exhaustive order-type enumeration (finite decision procedure for comparison-only formulas); finite pattern-coverage evaluation over the operator space",
            "For all pairs of ranges: each pairwise relation arm, extracted from the current source as a comparison formula, is proved equal to its interval definition on every weak ordering of the four end points (and every limit / whitespace-predicate value), the converse / symmetry / implication laws hold between the extracted formulas, negation is the exact complement in all four test functions, toggle_negate/toggle_all/with_limit change exactly one field on the whole operator space, every operator/modifier combination reaches a real arm (no unreachable!()), no unsigned subtraction can underflow, and tests on singleton sets equal the pairwise test (loops unrolled once). Sets with more than two members are decided only for pattern coverage. QUANT: test_set of a selection against a two-member set equals the documented quantifier (some / every member, or the set's extent) over the pairwise relation, negation its complement.",
            "trusted: syn, the formula evaluator's closed vocabulary (anything outside it is reported, not skipped), the SPEC table of interval definitions written from the doc comments; the whitespace predicate is uninterpreted; overlap of zero-width selections is checked for symmetry only",
            "DESIGN.md section 4 C13, A7", "syn"),
    "C09": ("other", "panic-source reachability over the MIR call graph with dominance-based discharge idioms and a reviewed table; table agreement of printed vs parsed keywords (syn); consistency rule on the parser's notion of whitespace; finite evaluation of the extracted LIMIT printer and parser arms",
            "Totality: every panic source (assert, unwrap/expect, slicing/indexing, panicking macro, panicking container method) in every function reachable from the four parser entry points (over-approximated call graph: class-hierarchy edges, trait-bound callbacks, closures) is proved dead by a semantic idiom (prefix fact on the same unmodified string established locally or by every caller; dominating comparison; is_some guard) or carries a reviewed one-symbol table line; anything else - in particular any new panic source - is a violation. Fixpoint: every keyword the printers emit (constraints, relation operators, query types, data operators, qualifiers) is accepted by the parser. The parser strips whitespace with one definition of whitespace only (WS: the supporting condition of the reviewed slice exceptions). parse(print(LIMIT b e)) = (b, e) for all b, e in [-3,3] (LIMIT). Meaning preservation of print/parse for the other constraints is not decided. ARGTYPE: get_arg_type and parse_dataoperator evaluated together reach no panic source on a grid of argument texts. ALIGN: vectors zipped by the printer grow together in every builder method.",
            "trusts rustc MIR and trait resolution, the over-approximated call graph, and rules/panic_safe.json (23 reviewed lines); panics inside foreign crates are not modelled",
            "DESIGN.md section 4 C09, A1, A2", "mir+syn"),
    "C19": ("other", "panic-source reachability over the MIR call graph from all loader entry points and serde/minicbor callbacks, with discharge idioms and a reviewed table; allocation-size provenance; loop-advance shape; must-call validation",
            "For every input: each panic source in the 670 functions reachable from the loader entry points and from every local impl of serde Deserialize/DeserializeSeed/Visitor and minicbor Decode is proved dead by an idiom, carries a reviewed reason, or is reported (new panic sources are violations; today's genuine ones are listed as known findings or were repaired). Every allocation in that code must be sized by a constant or a length of existing data; every loop must advance an iterator or reader; the CBOR loader must validate handles (it does not: known finding). Running time and the C01-C03 guarantee for the loaded store are not decided. EXIST: handles stored by AnnotationStore::selector() come from fetched items, never from bare id resolution. RECUR: every loader-reachable function that may call itself has a reviewed termination argument; the include recursion re-enters only with text present.",
            "trusts rustc MIR, the over-approximated call graph (class hierarchy restricted by instantiation sets, trait-bound callbacks), and rules/panic_safe.json; category reasons in that table rely on the store invariants of C01-C03, which hold for JSON/CSV-built stores only",
            "DESIGN.md section 4 C19, A1, A2", "mir"),
    "C20": ("other", "effect analysis over the MIR call graph: inventory of interior-mutable cells, write sites, reverse reachability from every public shared-reference entry point; must-pass-through (bracket) rule with guard correlation",
            "Decides the interference-freedom clause for every interleaving at once: threads holding only shared references can affect each other only through interior-mutable state, so the check inventories every such cell (4 today; a new one is a violation), finds every write site, and reports every public entry point callable with shared references (751 analysed) that can reach a write. The read-only API (iterators, searches, queries, parallel adaptors, transpose) reaches none - that is the guarded regression surface; the 24 serialisation entry points that do write are genuine and listed as known findings. A bracket rule proves that a temporary switch of the store-wide serialisation mode is restored on every path to a return. LOCK: writes to the shared cells take the lock unconditionally, never try_write()/try_lock().",
            "trusts rustc's aliasing rules (no unsafe aliasing; the crate has one unused unsafe fn), the over-approximated call graph, and std/rayon; which interleavings are harmful among the writing entries is not decided - they are all reported",
            "DESIGN.md section 4 C20, A1, A3, A4", "mir"),
    "C05": ("other", "table agreement between writer field/tag literals and reader schemas (syn AST), sibling-expression agreement for id/temp-id fallbacks, must-call rules for temp-id readers and dirty flags",
            "Decides the schema-level necessary conditions of the JSON round trip for every store: each of the 8 writer/reader pairs agrees on field names and required fields, every selector arm writes its own variant name as @type and exactly the fields SelectorJson expects (9 arms), SelectorJson converts to the same-named builder variant, every id/temp-id fallback reads both identifiers from the same item (11 sites), the two streaming visitors still map temporary ids back and re-create gaps, and every mutation callback of a stand-off dataset marks it changed so that save() rewrites the file. Value fidelity and byte-identical re-serialisation are not decided. WHOLE: writers hand persisted collections to the serialiser whole (no filter/truncation).",
            "trusts syn and serde's derive semantics (rename/alias/default); values are not compared",
            "DESIGN.md section 4 C05, A8, A9", "syn"),
    "C01": ("other", "field-effect ownership analysis (MIR) against a reviewed writer table; insert/un-insert pairing and accessor-family agreement of the index callbacks (syn); positional-vector discipline, guard/use contradiction, dominance rules (MIR); sibling agreement of the range-compression arms",
            "Because every history funnels through StoreFor::insert/remove and three callbacks, agreement after every history reduces to facts about a dozen functions, decided here for all paths: only sanctioned functions may write the 40 index / id-map / store / position fields (123 reviewed writer lines; a new writer is a violation); every index inserted() writes is un-written by preremove() from the matching accessor; each index write is guarded by its own configuration flag and ends in the new handle; handle-indexed vectors are never shifted, truncated or reordered; no indexed access sits in the branch where the index is out of range; a text selection is inserted only on the not-known edge of a complete look-up; range compression of sub-selectors compares resources and consecutive handles; every collection announced with ResultIter::new_sorted (the chronological / duplicate-free promise that later binary searches rely on) comes from a reverse-index row, a store iteration, a BTreeSet, a single item or a local vector sorted and then de-duplicated, followed through crate-local helpers (SORTED). Exactness of what the API iterators return is not decided. ROW: rows of the reverse indices hold each referrer once, in handle order, and removal preserves the order (evaluated insert/remove). COMPRESS: an internal ranged selector stands for exactly the sub-selectors it replaced (the compression match evaluated on ~800 selector pairs).",
            "trusts rustc MIR, syn, rules/owners.json (reviewed), the ACCESSOR table in lib/props/c01.py; SORTED assumes substore membership vectors are appended in handle order",
            "DESIGN.md section 4 C01, A3, A4, A9", "mir+syn"),
    "C02": ("other", "cascade coverage matrix derived from index field types vs fields consulted by each removal routine (syn); truth table of the retain predicate; guard shape of non-strict removal; collect/consume pairing of DELETE; panic-source reachability from the removal entry points (MIR)",
            "Decides for all stores the structural necessary conditions of an exact, dangling-free cascade: for each of the five item kinds, the removal routine consults every live reverse index whose key mentions that kind (matrix derived from the field types, 11 cells); cascades that gather handles from several rows use a set; Annotation::remove_data keeps exactly the pairs that differ from (set, data) (4-row truth table); non-strict removal deletes the annotation only under an emptiness test; DELETE queries consume every collection they fill; and no undischarged panic source is reachable from the removal entry points ('succeeds whenever the item exists'). Exactness of the cascade for each store shape is not decided. RANK: no handle is built from an enumerate() counter taken after slots were dropped. LIVE: no loop re-reads an index row that a call in the same loop may shrink. REVISIT: cascade loops over a snapshot test presence before removing (an annotation reachable by two paths).",
            "trusts syn/rustc, the ROUTINES and SUBSTITUTE tables in lib/props/c02.py, rules/panic_safe.json[C02]",
            "DESIGN.md section 4 C02", "syn+mir"),
    "C03": ("other", "ownership of id maps (MIR field effects), provenance and dominance rules on StoreFor::insert/remove (MIR), sibling contradiction on liveness tests, must-call of the kind check, panic reachability of the id parser, table agreement inside reindex() and gap-convention agreement between gaps() and Handle::reindex",
            "Decides for every history and every lookup string the structural necessary conditions: only sanctioned functions write id maps; StoreFor::remove deletes exactly the removed item's own id (provenance of the HashMap key) before the tombstone; no liveness test of a store slot ignores tombstones; the temporary-id parser has no reachable panic source and resolve_id checks the kind prefix; the id-map insertion is confined to the branch where has(id) is false and generate_id retries; reindex() remaps each id map with the gap table of its own store, the shift convention of gaps() and Handle::reindex agree (evaluated on the equality case), and every live index mentioning a renumbered handle type must be remapped (5 known findings: reindex() is incomplete). COMPACT: gaps(), store compaction, Handle::reindex and IdMap::reindex agree on the new handle of every live item for all 64 liveness patterns of a 6-slot store (evaluated). TRUNC: a temporary id whose number does not fit the handle type does not resolve.",
            "trusts rustc MIR/syn and the owners table; the arithmetic of compaction beyond the gap convention and the remapping of handles stored inside annotations are not decided",
            "DESIGN.md section 4 C03", "mir+syn"),
    "C04": ("proof", "formula extraction from the syntax tree of the offset constructors / reporters and exhaustive evaluation over every cursor combination on small texts (finite decision procedure for piecewise-linear guard trees); provenance of stored selections (MIR); inventory of TextSelection literal sites",
            "For every pair of cursors of either alignment (in range, out of range, inverted, zero-width) on texts of length 0..3 (0..5 thorough), and every parent selection: the three constructors accept an offset exactly when it denotes 0 <= begin <= end <= length of the addressed text (resource or parent annotation) and then resolve to exactly those positions; every offset reported by Selector::offset_with_mode and TextSelection::relative_offset in each of the four modes has non-positive end-aligned cursors and re-resolves (through the library's own extracted resolver) to the same range; the cursor-kind to OffsetMode map is the identity. Structurally: TextSelection values are built only inside the four reviewed functions and everything AnnotationStore::selector stores comes from a validating constructor.",
            "trusted: syn, the evaluator vocabulary (anything else is reported as not discharged), the model of an empty position index, the piecewise-linear small-model argument; that the selected text equals those codepoints is C12's share",
            "DESIGN.md section 4 C04, A7", "syn+mir"),
    "C12": ("other", "abstract interpretation of units (codepoint vs byte) and coordinate spaces over MIR; guard-shape rule on the conversion functions (syn); dominance of the interval guard; who-may-read rule for the knob; consumer/filter rule for the position index",
            "Decides, for every text and every setting, the structural necessary conditions: in the 796 functions of the text modules no codepoint position is ever added to, compared with, passed as or stored as a byte position (unit inference seeded from the conversion functions, std string functions and declared field units; 957 values typed) and no two absolute positions are added; the two conversion functions answer Ok only under an exact match of the cursor and otherwise fall to Err, with no reachable panic; create_milestones runs only under interval > 0; milestone_interval is read only where milestones are placed; every exposure of the position index filters milestone-only entries (three raw low-level accessors are known findings). Numeric exactness of the counting loops is not decided. EXACT: utf8byte and utf8byte_to_charpos evaluated on small multi-byte texts for every content of the position index return exactly the byte offset / codepoint position, and an error beyond the text.",
            "trusts rustc MIR, the unit seed tables in lib/units.py (each field unit is also checked at its initialisation sites), rules/units_ok.json (6 error-payload lines), syn",
            "DESIGN.md section 4 C12, A6", "mir+syn"),
    "C07": ("other", "unit / coordinate-space inference over MIR; receiver-chain rule for haystacks (syn); taint from transformed copies (MIR provenance); finite evaluation of the capture-group folds; shape rule for the segmentation cursor",
            "Decides the structural necessary conditions for every text and sub-selection: no codepoint/byte mix-up and no doubly applied begin offset anywhere in the search / split / trim / regex / segmentation code (this covers trim_text's cursors); FindText on a sub-selection uses the selection's own text as haystack; byte positions found in a lower/upper-cased or replaced copy never reach conversions on the original (one known finding: case-insensitive search); Match::begin / Match::end equal min start / max end for every list of up to three optional capture groups; each segment is cursor..X followed by cursor = X and iteration stops exactly at cursor >= end. Regex semantics and case folding are not decided. WINDOW: every re-assignment of a search iterator's window keeps its end. IDXSPACE: a counter over an index list indexes only that list.",
            "trusts rustc MIR/syn, unit seed tables, the evaluator; matches themselves come from std/regex (trusted)",
            "DESIGN.md section 4 C07, A6, A9", "mir+syn"),
    "C06": ("proof", "extraction of the candidate-range arms and of the relation from the syntax tree; exhaustive finite evaluation that the chosen ranges contain every related selection (A7); structural rules for the filter, the self-exclusion, de-duplication and sort-before-dedup",
            "None missing: for every operator value (12 variants x negate x all x limit x whitespace, 49 groups), every reference selection (every reference set of up to two selections in the thorough tier) and every candidate selection of a text of length 4 (6 thorough), if the extracted relation holds then one of the index ranges chosen by init_textseliters contains the candidate's begin (forward) or end (backward) - including selections touching the very end of the text, references in the second half, zero-width selections and negated operators. No extras: every yielded handle is guarded by refset.test with the iterator's own operator. Only Equals returns the reference: both directions carry the unconditional has_handle exclusion. Each once: per-reference iterators are de-duplicated, and every Vec::dedup() in the crate (21 sites) follows a total sort of the same vector. Crate constants larger than the position domain are scaled consistently in search and relation; ONCE additionally requires every value returned by next() to pass the insertion into the seen-set.",
            "trusted: syn, the evaluator, the range model (checked structurally by C06.ITER), the relation model (proved against its definition by C13); result order and the Equals shortcut are not decided",
            "DESIGN.md section 4 C06, A7", "syn"),
    "C14": ("other", "effect-ordering analysis over MIR: persistent-write call sites (field effects through &mut parameters, closed over the call graph, restricted to calls that receive the entry's own &mut state) paired with later fallible exits on a common CFG path; descent into reachable non-atomic functions",
            "For each of the 13 mutating entry points (annotate, annotate_from_iter/file, insert_data, add_resource, add_dataset, StoreFor::insert, query_mut ...) the check enumerates every way an error can be returned after persistent state may have been written: pairs (writing call, later `?`/Err exit) inside the entry, and every reachable function that is itself non-atomic. The library has no rollback, so today's 80+ pairs are genuine and listed as known findings (StoreFor::insert pushes before inserted() can fail, annotate resolves the target and inserts data before the annotation, batches stop half-way); what is decided is that no *new* write-then-fail path appears: a new fallible step after a commit point, a write moved before a check, or a batch made streaming is reported.",
            "trusts rustc MIR and the over-approximated call graph; 'may write' is an over-approximation (callers of writers are writers); observational equality after a failure is not decided beyond 'no write before the error'",
            "DESIGN.md section 4 C14, A5", "mir"),
    "C15": ("other", "table agreement of selector kinds between writer and reader arms (syn); dominance of with_target over Ok exits (MIR); sibling agreement of the eight column writers and of the three row literals; finite evaluation of Cursor print/parse; shape of the data/set id loop",
            "Decides the structural necessary conditions of the CSV round trip for every store: each of the six simple selector kinds the writer emits has an arm in the reader's simple branch and in its complex branch; every Ok exit of the row reader is dominated by with_target (rows without data keep their target); all eight column writers expand both internal ranged selector kinds into one ';' slot per contained selector, so columns stay aligned; Display and TryFrom<&str> for Cursor are mutually inverse for both alignments including \"-0\" (evaluated from the extracted bodies); the writer appends exactly one data id and one set id per data item; the three row literals build shared columns identically (one known finding: the Id column). Value text and files are not decided. RANGED: every column writer renders an internal ranged sub-selector exactly as the sub-selectors it stands for (evaluated). ROWKIND: the dataset reader classifies every row shape the writer emits as the writer meant it.",
            "trusts syn/rustc, the evaluator; identifiers containing ';' are outside the claim",
            "DESIGN.md section 4 C15", "syn+mir"),
    "C17": ("other", "string-context discipline of the hand-written JSON exporter (syn): JSON context of every format placeholder by quote parity; separator/bracket typestate by path-sensitive abstract interpretation of the string accumulators with per-context function summaries; exhaustive typed rendering per DataValue variant; sub-selector iteration not narrowed",
            "Decides, for every input, the well-formedness clauses that are visible in the shape of the exporter: every placeholder inside a JSON string literal receives a number, a safe-charset value or the output of the complete escaper, and every placeholder in value position the output of a JSON producer (ESC); the escaper is complete (serde_json, or hand-written over chars with quote, backslash and control range) and text is never rebuilt from single bytes (BYTES); value_to_json has an explicit arm per DataValue variant whose rendering fits the payload type (TYPE); on every path through to_webannotation / output_selector / output_subselectors / serialize_context* members and elements are separated by exactly one comma, brackets balance and each function returns a complete value (SEP); every sub-selector is emitted, start/end come from begin()/end() of one selection (TARGET). Faithfulness of the body beyond JSON types and the offset arithmetic behind begin()/end() are not decided (offsets: C04/C12). NS: uri_to_namespace compacts an IRI to prefix:local only when the declared namespace IRI + local is the original IRI (evaluated).",
            "trusts syn's parse, serde_json's string serialiser as the complete escaper, and that chrono's to_rfc3339 and nanoid emit no quote, backslash or control character; the separator typestate treats opaque conditions as free booleans (correlated by text), so infeasible paths can only add findings, never hide one",
            "DESIGN.md section 4 C17", "syn"),
    "C18": ("other", "finite evaluation of the extracted syntax trees of protect_text's per-annotation step, ResultItem<Annotation>::validate_text and AnnotationStore::validate_text over all modes x annotation shapes x stored references, with text/digest/delimiter as opaque injective tokens; writer/reader key-table agreement; loop-carried-state dataflow rule on the store-level loop",
            "Decides that the two halves of text validation agree for every store: for each of the four modes, 0/1/2 text selections, both sides of the Auto threshold, with and without a delimiter and with or without pre-existing references, what protect_text queues makes validate_text answer Some(true) on the same text token and Some(false) on a different one, and every annotation with text receives validation information (ROUND); each reference is stored under the key and dataset its reader looks up (KEYS); validate_text's verdict table is the required one for all 18 combinations of stored references (VERDICT); the store-level counters partition the annotations by their own verdict (AGG) and no state carried between loop iterations flows into a verdict (DIRECT). That text_join and SHA-1 are functions of exactly the selected characters, and persistence across save/reload, are not decided.",
            "trusts syn's parse and the evaluator (lib/formula.py); text, digest and delimiter are modelled as opaque injective tokens; any cross-iteration cache in the store-level loop is reported because the adequacy of a cache key cannot be decided statically",
            "DESIGN.md section 4 C18", "syn"),
    "C10": ("other", "finite evaluation of the extracted syntax trees of insert_data, data_by_value, DataValue::test and DataOperator::from(&DataValue) (scenario tables and algebraic laws as obligations); shape/idiom rule on the return expressions of find_data / test_data / DataKey::data and the operator arms of the data filter; reviewed caller table for the safety switch",
            "Decides for every history and value the structural clauses of the vocabulary guarantee: insert_data creates a key only when the requested key does not exist and a data item only when no equal item may be shared (no id given, key exists, equal value present, safety on), returns the shared item and looks it up with (resolved key, value added) - all 60 combinations of id/key/duplicate/safety (DEDUP); data_by_value decides by value equality over the whole key->data entry, never by the looser operator test (BYVALUE); only the reviewed deserialisers switch the duplicate check off (SAFETY); find_data (dataset and store), test_data, DataKey::data and the data filter answer from the scan source narrowed by nothing but filter_value(the caller's operator), unfiltered only under DataOperator::Any (SCAN); DataValue::test obeys Any/Not/And/Or, the arithmetic meaning and type discipline of the three ordered families, string cross-type and numeric cross-type comparison, list membership and equality with DataOperator::from(&v) on a grid of 24 values x 70 operators (TEST, ~5000 obligations). Completeness of key_data_map and the id maps is decided under C01-C03, not here.",
            "trusts syn's parse and the evaluator (lib/formula.py) with its hooks modelling get/insert/handle; values are tokens; NaN and float formatting are outside the grid",
            "DESIGN.md section 4 C10", "syn"),
    "C08": ("other", "relational denotation of both implementations of every constraint (index-driven source in init_state_*, filter in update_state_* resolved through the filter_* method, the Filter variant it builds and the test_filter arm that interprets it) over a reviewed table of navigation primitives, compared after canonicalisation; exhaustiveness of filter construction versus test_filter arms; bounded exhaustive evaluation of the extracted LimitIter::next, Handles::union/intersection and ResultItem Eq/Ord",
            "Decides the structural clauses of 'results equal the meaning of the constraints however evaluated': for each of the 63 (result type, constraint shape) pairs that are implemented both as first and as later constraint, the source and the filter denote the same relation over the primitives has_data / key_of / targets / on_text / ... (PAIR: order independence of constraints); every Filter value a filter_* method can build has an interpreting arm (ARMS: the iterator API and UNION-as-filter never reach the catch-all unreachable!); LimitIter yields exactly the slice [begin,end) for all lengths 0..6 and begin,end in [-7,7] (LIMIT); Handles::union/intersection obey set semantics and keep sortedness on all pairs of subsets of a 5-element universe, sorted and unsorted paths (SET: disjunction = union without duplicates); result items are identified by (store, handle) in Eq and Ord (IDENT). Not decided: that each navigation method returns what the table says (reverse indices: C01; text relations: C06), sub-query scheduling, agreement of the STAMQL parser with the builder, ADD/DELETE versus direct calls. ADD: in query_mut the OFFSET of a TARGET assignment on a text selection reaches the selector builder only through <selection>.textselection(offset).",
            "trusts syn's parse, the NAV table in lib/qpair.py (one reviewed line per navigation method), the evaluator; LIMIT and SET are bounded (small-scope) evaluations, not proofs for all lengths; Text/Regex constraints are excluded from PAIR (run-time text)",
            "DESIGN.md section 4 C08", "syn"),
}

NA = {
    "C16": "Piece-by-piece text identity and re-segmentation are statements about run-time texts and fragment geometry computed by a 450-line buffer walk; no structural clause of that algorithm is a genuine necessary condition that a static rule can name without freezing the code (DESIGN.md section 6). The store-unchanged clause is reported under C20.",
}


# sentences added to the claim text for rules built after the table above was written (rounds 2-3 of seeding)
EXTRA = {
    "C01": " GUARD: protect_text attaches validation data by hand only to annotations that carry no data under that key yet (queue/guard/key pairing read off the code). ROW also covers an older handle arriving late (rows stay in handle order). EXPAND: item i of an internal ranged selector expands to the selector it replaced (evaluated). LOWLEVEL: every low-level Annotation::add_data / remove_data is followed by the matching reverse-index write (MIR path rule).",
    "C02": " AFTER: in remove_key / remove_data no path from the removal of the item itself to a successful return bypasses a dependency index (MIR path rule). REMOVES: once the item is resolved a successful return implies its StoreFor::remove ran. PRESENT: inside removal loops no annotation handle from an earlier list is accessed with `?` unless presence was established in the same iteration. INDEXED: forward data references are always indexed (the cascades find dependents through the index only).",
    "C03": " SLOTLOOP: a loop over the slots of a store never leaves the loop on an empty slot. TRUNC evaluates the real Handle::new / as_usize of every handle type (a panicking constructor is reported). REIDX additionally refuses an early return between compaction and remapping. TMPSYNC: propagate_full_config synchronises the temporary-id flag of the id maps on every path.",
    "C05": " MODE: the OffsetMode stored by AnnotationStore::selector is taken from the caller's offset only (MIR value flow). TMPGAP: a reader re-creates the gap in front of a temporary id from the number in the id alone. CLEAN: the changed flag is cleared only for a write to the member's own file. POSITIONAL: readers of positional temporary ids insert with the duplicate check off. OMIT: no field is left out for a particular value unless the reader restores it. EMPTYROW: RelationMap::get answers None for an item without relations (the writers pick the members of the root store and of each sub-store by that test).",
    "C06": " IDXGUARD: a membership-guarded insertion tests the container it inserts into. REFSET: conversions of known selections into a TextSelectionSet keep the stored selections (handles).",
    "C08": " PAIR fails closed when a pair stops being decidable. FLAG: Handles::from_iter reports sorted=true only for sequences in handle order (evaluated on all sequences up to length 4 over 4 handles). NOCASE: every case-insensitive filter_text_byref receives a lower-cased reference text.",
    "C09": " CURSOR: no parser function reads from an input position it has already consumed. PRINT: Query::to_string uses every parsed field and separates sub-queries. LOSSLESS: DataOperator::to_string renders numeric payloads with a bare {} and datetimes with an exact RFC 3339 formatter. VERBATIM: string operands are printed verbatim (the parser is zero-copy and never un-escapes). ARGTYPE also requires every argument class to be reachable and printed numeric literals to be read back in their class.",
    "C10": " PARSE: the operator the query language builds for OP value denotes, under the extracted DataValue::test, the stated comparison (!= complement of =, a|b disjunction, inequalities arithmetic). MERGE: a merged dataset's data is re-pointed to the key handles of the receiving set.",
    "C11": " POST also requires every caller of from_cbor_file to hand the loaded store on unchanged.",
    "C12": " INVALIDATE: check_mutation resets every text-derived field (position index, byte map, text selections) under no foreign guard. DELEGATE: the conversions of the wrapper types answer through TextResource's conversion on every path.",
    "C13": " FLAG: TextSelectionSet.data/.sorted are written by add() and sort() only, and add() keeps a sorted set sorted (evaluated). SETSUBJ: tests with a set as subject (against a selection and against two-member sets) equal the documented lifting of the member-level test on one- and two-member subject sets, negation its complement.",
    "C14": " STOP: no step that may write persistent state runs inside a closure handed to a non-short-circuiting iterator adaptor. Per-body (write, later failure) pairs are keyed individually, distinguishing failures reachable within the same loop iteration.",
    "C15": " DIALECT: no CSV dialect option is set on the reader or the writer only. IDCOL: the Id column is never passed through an adaptor that can drop it. TEXTLEN: textlen and stored positions are codepoint counts wherever a resource is built (unit inference).",
    "C17": " ONCE: no text is passed through the JSON escaper twice (per-function taint of escaped text).",
    "C18": " DIALECT: the CSV reader reads field text back unchanged (no trimming), a necessary condition for validation texts to survive a CSV save/reload. OMIT: the JSON writer never leaves out a selector's offset for a particular value.",
    "C19": " SPLIT: a vector collected from str::split and then indexed is never assumed non-empty on an Option-typed column. DIV: create_milestones is reached only under interval > 0 (the supporting fact of a reviewed table line, checked here too).",
    "C20": " CLAIM: a serialiser clears the shared changed flag only on paths that have passed through the stand-off write.",
    "C04": " VAL also covers TextSelection::absolute_offset (relative offsets through <selection>.textselection(offset) / STAMQL OFFSET).",
    "C07": " UNIT also reports an absolute position handed to a selection-relative conversion and a position relative to one selection handed to another selection's API.",
}

# rules added while answering rounds 4-5 of seeding
EXTRA5 = {
    "C01": " TRIPLE / EXCLUSIVE: TripleRelationMap and ExclusiveRelationMap insert/remove/get evaluated from their syntax trees against a reference map. NEW target-walk: the index builders walk a target non-recursively. CFG switch: the multi-target switch does not depend on an optional index being enabled. EMPTYROW: RelationMap::get answers None for an item without relations.",
    "C02": " TRIPLE: removal from the triple map leaves no emptied row behind. AFTER also requires the dependency consults to be look-ups on the live index.",
    "C03": " LATEID: an id assigned after insertion is registered in the id map. PREINSERT: the id map is written only after the last failing exit of the preparation.",
    "C05": " EXCLUSIVE: the latest sub-store membership of an item wins (decides the file it is written to). WALK: writers walk selectors without following annotation targets. WORKDIR: filename_without_workdir(f) resolves, as the reader resolves it, to the file f names (evaluated on a grid of directories and names).",
    "C07": " TRIM: trim_text evaluated on every text up to four characters. CASE: both sides of every comparison of the case-insensitive search are lower-cased. WINDOW: the search window keeps its end, advances past an empty match and is reset when the iterator moves to the next resource.",
    "C08": " SET also evaluates the 0/1-element fast paths against sorted and unsorted receivers.",
    "C09": " SEP: in Query::to_string every piece that starts a token follows whitespace on every path (abstract interpretation over the class of the last character; the parser splits on whitespace only). STOPSET: parse_select accepts without WHERE every token its constraint loop stops at. ROUNDTRIP / QROUNDTRIP: Constraint::to_string -> Constraint::parse and Query::to_string -> Query::parse, interpreted from their syntax trees on a grid enumerated from the Constraint enum (545 constraint values) and 64 SELECT/DELETE query shapes, give back the same value, leave nothing unread and print to the same text; seven constraint values the printer has no syntax for are recorded as known findings.",
    "C11": " WRITE: to_file, save and to_cbor_file reach minicbor::encode of the store on every path that does not return an error (MIR must-pass-through).",
    "C12": " BOUND: selection-level conversions compare the position with the selection's own length before delegating. SUBSLICE: every copy of subslice_utf8_offset accepts exactly the closed address range of the text (evaluated).",
    "C13": " SETSUBJ runs with limits none, 0 and 1.",
    "C14": " PREINSERT: no id is registered before the last failing exit of an insertion's preparation.",
    "C15": " WORKDIR: as C05.WORKDIR, for the Filename column of the manifest. EXPAND: the expansion of internal ranged selectors the CSV writer serialises is the selector list it replaced.",
    "C17": " ESC also evaluates json_escape on strings with quotes and backslashes at their edges (between two quotes the result must read back as the input). EXPAND: the exporter's view of ranged selectors.",
    "C18": " FRESH: the change marker of a resource built from explicit text derives from the builder alone, never from file-system state (MIR provenance), so the stand-off text that the stored references were computed from is the one written.",
    "C19": " RECUR covers cycles of the call graph (strongly connected components) and requires a depth bound on dataset includes.",
    "C20": " WRITE keys each finding by entry point, writer and the first callee on the way, so a new route from a listed entry point is a new finding.",
    "C04": " VAL also covers beginaligned_cursor and the relative cursor arithmetic of absolute_offset.",
    "C06": " SELF also requires the Equals shortcut to cover the `all` modifier.",
}

# rules added in round 6 and with the repairs it led to
EXTRA6 = {
    "C01": " MULTIARMS: the multi-target block of inserted() queues, for every kind of sub-selector, exactly the reverse-index entries of what it references (evaluated). TRIPLE also evaluates Extend on a batch that spans several first-level rows. PRED: Annotation::remove_data's predicate is the inequality with the (set, data) pair.",
    "C02": " MULTIARMS: as C01 (the cascades find dependents through these entries).",
    "C03": " LATEID also covers items fetched with a plain let .. get_mut(..).",
    "C04": " VAL has the most negative end-aligned cursor on its grid (no overflow panic). LEN: Offset::len is end - begin for well-ordered same-alignment offsets, None otherwise, and never panics.",
    "C05": " NAME: set_filename leaves the name it was given (what to_file writes, from_file finds). EXT: no Path::ends_with on a file extension. DTEXACT: no truncating datetime rendering. ALWAYSID: the annotation writer emits @id on every path. RAWTEXT: a stand-off text is taken as read. CLEAN demands an equality between the path written and the member's own file.",
    "C06": " REFRES: a set collected from result selections takes the resource of its first member, bound or not (evaluated). EMPTY: the search tests for an empty reference before using its extent. ALLORNONE: the Equals shortcut drops buffered hits on a miss.",
    "C07": " REGEXBASE: the byte base of a regex search over a selection comes from the resource, not from the selection itself.",
    "C08": " WINDOW: as C07.WINDOW (TEXT constraints are answered by that iterator).",
    "C09": " RECUR: every call-graph cycle reachable from the parser is bounded by a depth counter or has a reviewed reason (a stack overflow aborts instead of returning a syntax error). LOSSLESS requires {:?} for float operands.",
    "C10": " DELEGATE: ResultItem<AnnotationData>::test answers through DataValue::test on every path.",
    "C11": " NAME: as C05.NAME for .cbor.",
    "C12": " SLICE: text() of the selection wrappers is a slice of the resource's buffer on every path (never a constant).",
    "C13": " WRAP: the high-level tests answer through the low-level relation test on every path. HANDLEFREE: every operator answers the same with and without handles on the operands (evaluated).",
    "C14": " PARSEFIRST: a batch file's annotation without target is refused when the file is parsed.",
    "C15": " NAME: as C05.NAME for the CSV manifest.",
    "C17": " PREFIX: into_iri gets the prefix of the kind of item whose id it converts (MIR provenance). FLAGS: the suppress_* flags are only raised. VALUE: no trimming / re-casing of string payloads.",
    "C18": " ALWAYSID: as C05.ALWAYSID (a reference re-attached to another annotation validates against the wrong text).",
    "C19": " abs() of a signed integer is a panic source; the include guard of TextResourceBuilder::build must be the bare text test or a disjunct.",
    "C20": " CLEAN: as C05.CLEAN (an export by one reader must not clear the flag another reader's serialisation depends on).",
}


EXTRA7 = {
    "C01": " SCOPE: as C02.SCOPE. TRIPLE also removes a relation that is absent from a single-valued row.",
    "C02": " SCOPE: remove_key / remove_data clear index rows with remove_second(set, item) only, never set-wide.",
    "C03": " NOSHRINK: the readers' padding resize_with is reached only under new length > current length. MERGEID: Storable::merge writes back the receiver's own handle, read before the overwrite. REQUEST: no body unwraps or expects the answer of Request::to_handle (crate-wide, by the producer of the receiver).",
    "C05": " RESOLVE: every File::open / File::create of the file helpers opens a path from get_filepath (dominating). ORDER: no JSON writer re-orders what it writes. EXTAGREE: writer and reader of a stand-off resource decide `STAM JSON` by the same test.",
    "C06": " EXHAUST: the search leaves a candidate iterator only when it is exhausted.",
    "C08": " SORTKEY: the comparator textual_order() of text selections sorts with before dedup() also orders by the resource.",
    "C14": " BRACKET: functions that switch merge mode on switch it off and restore temporarily set fields on every path to a return.",
    "C15": " ROWORDER: the dataset table is written in store order. VALUETEXT: the Value column is read as text.",
    "C17": " IRI: is_iri evaluated on identifiers with one and several colons.",
    "C18": " RESOLVE: as C05.RESOLVE.",
}

EXTRA8 = {
    "C01": " ROW also runs remove() on a single-valued row and on a value that is not in the row. RANGEREC: SelectorIter::next follows the annotations of a ranged selector like a single AnnotationSelector.",
    "C02": " ROW: as C01.ROW. EVERY: a cascade loop that removes dependents calls the removal on every path back to its head. OWNROW: a preremove callback drops a whole row (remove_all) only of a map keyed by the handle kind being removed, with an argument derived from its own handle parameter (resolved generic arguments, MIR provenance).",
    "C03": " IDFIRST: resolve_id looks the string up in the id map before reading it as a temporary id (dominance).",
    "C05": " MOVED: set_filename marks stand-off resources and datasets changed when it moves the store.",
    "C07": " REGEXFLAGS: no RegexSet is rebuilt from Regex::as_str. OVERLAP: the refill of buffered matches that begin inside the chosen match is a loop.",
    "C15": " MOVED: as C05.MOVED.",
    "C04": " BOTH: the resolutions of offset.begin and offset.end each dominate every Ok answer of a function that resolves either.",
    "C09": " RESULTTYPE: every result type the query parsers can produce has a keyword in the printer's table.",
    "C10": " KEYDATA: remove_key removes every data item of the key (C02.EVERY on remove_key).",
    "C12": " SPLIT: split_text's constructor and SplitTextIter::next, interpreted together, hand the resource's byte->codepoint conversion the absolute bytes of each piece. UNIT follows Option::map into closures.",
    "C13": " FLAG evaluates add() on members with and without handles. SETLAW: converse / symmetry / implication laws and negation-as-complement (empty subject included) on the set-against-set test for sets of one or two members; four laws fail on the pinned tree and are known findings - these set-level evaluations are outside the obligations of the proof-level claim, which is about pairs of ranges, singleton sets and the documented lifting.",
    "C17": " SETLOCAL: no collection of the exporter is keyed by a set-local handle. TEMPLATE: a free-text replacement is the last substitution into a template.",
}

TECH_EXTRA = {
    "C01": "; interpretation of the extracted RelationMap / TripleRelationMap / ExclusiveRelationMap methods and of the multi-target match of inserted() against reference maps (lib/formula.py)",
    "C02": "; MIR must-pass-through rules on the removal routines; interpretation of the index maps' removal methods",
    "C03": "; interpretation of gaps() / compaction / reindex on all liveness patterns of a small store; MIR path rules (no id registered before the last failing exit)",
    "C05": "; MIR must-pass-through rules (@id on every path, file name restored after a format switch), type-resolved lint on Path::ends_with, interpretation of filename_without_workdir against the reader's path resolution",
    "C06": "; MIR path rules on next_textselection (emptiness test before the extent is used, buffer cleared on a miss); interpretation of the FromIterator conversions",
    "C07": "; interpretation of trim_text and of the search-window updates; type-directed rule on the byte base of FindRegexIter (MIR)",
    "C09": "; interpretation of Constraint::to_string / Constraint::parse and Query::to_string / Query::parse with everything they call, on a grid enumerated from the Constraint enum (print -> parse -> print); abstract interpretation of Query::to_string over the class of the last character written; strongly connected components of the call graph with a depth-counter check",
    "C10": "; MIR must-pass-through (every answer comes from DataValue::test)",
    "C11": "; MIR must-pass-through of the write chain down to minicbor::encode and of set_filename",
    "C12": "; interpretation of the conversions on small multi-byte texts for every content of the position index and of subslice_utf8_offset on an address grid; MIR rules on the wrappers (delegation, bound check, no constant text)",
    "C13": "; interpretation of the set-level tests on one- and two-member sets against the lifted member-level test; MIR must-pass-through for the high-level wrappers; invariance of every operator under attaching handles",
    "C15": "; interpretation of the column writers, the row-kind test and filename_without_workdir; reader/writer dialect option agreement (MIR)",
    "C17": "; interpretation of the escaper on edge strings; type-directed prefix rule (MIR provenance); monotone-flag rule",
    "C18": "; MIR provenance of the change marker; must-pass-through of the @id member",
    "C19": "; strongly connected components of the call graph among loader-reachable functions with reviewed termination arguments and a checked include-depth bound",
    "C20": "; findings keyed per route (entry point, writer, first callee)",
}


def main():
    for k_, v_ in TECH_EXTRA.items():
        c_ = CHECKS[k_]
        if not c_[1].endswith(v_):
            CHECKS[k_] = (c_[0], c_[1] + v_, c_[2], c_[3], c_[4], c_[5])
    for k_, v_ in EXTRA8.items():
        EXTRA7[k_] = EXTRA7.get(k_, "") + v_
    for k_, v_ in EXTRA7.items():
        EXTRA6[k_] = EXTRA6.get(k_, "") + v_
    for k_, v_ in EXTRA6.items():
        EXTRA5[k_] = EXTRA5.get(k_, "") + v_
    for k_, v_ in EXTRA5.items():
        EXTRA[k_] = EXTRA.get(k_, "") + v_
    for k_, v_ in EXTRA.items():
        c_ = CHECKS[k_]
        if not c_[2].endswith(v_):
            CHECKS[k_] = (c_[0], c_[1], c_[2] + v_, c_[3], c_[4], c_[5])
    props = [json.loads(l) for l in open(os.path.join(VERIF, "properties.jsonl"))]
    checks = []
    na = []
    for p in props:
        pid = p["id"]
        if pid in CHECKS and os.path.exists(os.path.join(VERIF, "lib", "props", pid.lower() + ".py")):
            cat, tech, text, note, ref, eng = CHECKS[pid]
            checks.append({
                "property_id": pid,
                "quick_cmd": "bin/check %s --tier quick" % pid,
                "thorough_cmd": "bin/check %s --tier thorough" % pid,
                "evidence_file": "evidence/%s.json" % pid,
                "replay_cmd_template": "bin/check %s --replay {path}" % pid,
                "engine": eng,
                "level_claimed": {"category": cat, "text": text, "design_ref": ref},
                "level_note": note,
                "technique": tech,
            })
        else:
            na.append({"property_id": pid, "reason": NA.get(pid, "check not built yet (framework under construction); see DESIGN.md for the planned rule set")})
    m = {
        "version": 1,
        "setup_cmd": "bin/setup",
        "hooks": {"guard": "stam_verif",
                  "enable": "none needed: the analyses read the unmodified build of /repo (no hooks, no instrumentation)",
                  "baseline_off_cmd": "cd /repo && cargo test --workspace --no-fail-fast --offline",
                  "source_commits": [], "add_only": True},
        "engines": [
            {"name": "syn", "path": "engines/stamfacts-syn", "serves_properties": sorted(k for k, v in CHECKS.items() if "syn" in v[5]),
             "kind_free_text": "syn 2 AST dump of the crate (follows mod declarations); rules in lib/props/*.py"},
            {"name": "mir", "path": "engines/stamfacts-mir", "serves_properties": sorted(k for k, v in CHECKS.items() if "mir" in v[5]),
             "kind_free_text": "rustc_private driver (nightly) dumping MIR with resolved callees, field names, impl table; injected with RUSTC_WORKSPACE_WRAPPER under cargo +nightly check"},
        ],
        "checks": checks,
        "notes": "Static analysis only: every verdict is computed from /repo's current source (syntax tree, type-checked MIR, call graph) without executing stam code. known_findings.json lists genuine defects that are recorded rather than repaired; fixed: entries name the fix: commits in /repo.",
        "not_applicable": na,
    }
    with open(os.path.join(VERIF, "MANIFEST.json"), "w") as fh:
        json.dump(m, fh, indent=1)
    print("claimed:", [c["property_id"] for c in checks])
    print("n/a:", [n["property_id"] for n in na])


if __name__ == "__main__":
    main()
