"""Regenerates MANIFEST.json from the table below (run after adding a property module)."""
import json
import os

VERIF = os.path.dirname(os.path.dirname(os.path.abspath(__file__)))

# pid -> (category, technique, text, note, design_ref, engines)
CHECKS = {
    "C11": ("other", "schema table agreement over derive attributes (syn AST) + wire-shape symmetry of helper pairs",
            "Decides the schema-level necessary conditions of the CBOR round trip for every store: each encoded type is also decoded, every field of every encoded type has a unique index or is one of three run-time dirty flags (so no index or store is dropped or rebuilt), custom encode/decode helpers are wire-symmetric, and from_cbor_file changes nothing after decoding except two copied settings. Value-level equality is not decided.",
            "trusts minicbor's derive macros and syn; value equality of the reloaded store is not decided",
            "DESIGN.md section 4 C11", "syn+mir"),
    "C13": ("proof", "formula extraction from the syntax tree + exhaustive order-type enumeration (finite decision procedure for comparison-only formulas); finite pattern-coverage evaluation over the operator space",
            "For all pairs of ranges: each pairwise relation arm, extracted from the current source as a comparison formula, is proved equal to its interval definition on every weak ordering of the four end points (and every limit / whitespace-predicate value), the converse / symmetry / implication laws hold between the extracted formulas, negation is the exact complement in all four test functions, toggle_negate/toggle_all/with_limit change exactly one field on the whole operator space, every operator/modifier combination reaches a real arm (no unreachable!()), no unsigned subtraction can underflow, and tests on singleton sets equal the pairwise test (loops unrolled once). Sets with more than one member are decided only for pattern coverage.",
            "trusted: syn, the formula evaluator's closed vocabulary (anything outside it is reported, not skipped), the SPEC table of interval definitions written from the doc comments; the whitespace predicate is uninterpreted; overlap of zero-width selections is checked for symmetry only",
            "DESIGN.md section 4 C13, A7", "syn"),
    "C09": ("other", "panic-source reachability over the MIR call graph with dominance-based discharge idioms and a reviewed table; table agreement of printed vs parsed keywords (syn)",
            "Totality: every panic source (assert, unwrap/expect, slicing/indexing, panicking macro, panicking container method) in every function reachable from the four parser entry points (over-approximated call graph: class-hierarchy edges, trait-bound callbacks, closures) is proved dead by a semantic idiom (prefix fact on the same unmodified string established locally or by every caller; dominating comparison; is_some guard) or carries a reviewed one-symbol table line; anything else - in particular any new panic source - is a violation. Fixpoint: every keyword the printers emit (constraints, relation operators, query types, data operators, qualifiers) is accepted by the parser. Meaning preservation of print/parse is not decided.",
            "trusts rustc MIR and trait resolution, the over-approximated call graph, and rules/panic_safe.json (23 reviewed lines); panics inside foreign crates are not modelled",
            "DESIGN.md section 4 C09, A1, A2", "mir+syn"),
    "C19": ("other", "panic-source reachability over the MIR call graph from all loader entry points and serde/minicbor callbacks, with discharge idioms and a reviewed table; allocation-size provenance; loop-advance shape; must-call validation",
            "For every input: each panic source in the 670 functions reachable from the loader entry points and from every local impl of serde Deserialize/DeserializeSeed/Visitor and minicbor Decode is proved dead by an idiom, carries a reviewed reason, or is reported (new panic sources are violations; today's genuine ones are listed as known findings or were repaired). Every allocation in that code must be sized by a constant or a length of existing data; every loop must advance an iterator or reader; the CBOR loader must validate handles (it does not: known finding). Running time and the C01-C03 guarantee for the loaded store are not decided.",
            "trusts rustc MIR, the over-approximated call graph (class hierarchy restricted by instantiation sets, trait-bound callbacks), and rules/panic_safe.json; category reasons in that table rely on the store invariants of C01-C03, which hold for JSON/CSV-built stores only",
            "DESIGN.md section 4 C19, A1, A2", "mir"),
    "C20": ("other", "effect analysis over the MIR call graph: inventory of interior-mutable cells, write sites, reverse reachability from every public shared-reference entry point; must-pass-through (bracket) rule with guard correlation",
            "Decides the interference-freedom clause for every interleaving at once: threads holding only shared references can affect each other only through interior-mutable state, so the check inventories every such cell (4 today; a new one is a violation), finds every write site, and reports every public entry point callable with shared references (751 analysed) that can reach a write. The read-only API (iterators, searches, queries, parallel adaptors, transpose) reaches none - that is the guarded regression surface; the 24 serialisation entry points that do write are genuine and listed as known findings. A bracket rule proves that a temporary switch of the store-wide serialisation mode is restored on every path to a return.",
            "trusts rustc's aliasing rules (no unsafe aliasing; the crate has one unused unsafe fn), the over-approximated call graph, and std/rayon; which interleavings are harmful among the writing entries is not decided - they are all reported",
            "DESIGN.md section 4 C20, A1, A3, A4", "mir"),
    "C05": ("other", "table agreement between writer field/tag literals and reader schemas (syn AST), sibling-expression agreement for id/temp-id fallbacks, must-call rules for temp-id readers and dirty flags",
            "Decides the schema-level necessary conditions of the JSON round trip for every store: each of the 8 writer/reader pairs agrees on field names and required fields, every selector arm writes its own variant name as @type and exactly the fields SelectorJson expects (9 arms), SelectorJson converts to the same-named builder variant, every id/temp-id fallback reads both identifiers from the same item (11 sites), the two streaming visitors still map temporary ids back and re-create gaps, and every mutation callback of a stand-off dataset marks it changed so that save() rewrites the file. Value fidelity and byte-identical re-serialisation are not decided.",
            "trusts syn and serde's derive semantics (rename/alias/default); values are not compared",
            "DESIGN.md section 4 C05, A8, A9", "syn"),
    "C01": ("other", "field-effect ownership analysis (MIR) against a reviewed writer table; insert/un-insert pairing and accessor-family agreement of the index callbacks (syn); positional-vector discipline, guard/use contradiction, dominance rules (MIR); sibling agreement of the range-compression arms",
            "Because every history funnels through StoreFor::insert/remove and three callbacks, agreement after every history reduces to facts about a dozen functions, decided here for all paths: only sanctioned functions may write the 40 index / id-map / store / position fields (123 reviewed writer lines; a new writer is a violation); every index inserted() writes is un-written by preremove() from the matching accessor; each index write is guarded by its own configuration flag and ends in the new handle; handle-indexed vectors are never shifted, truncated or reordered; no indexed access sits in the branch where the index is out of range; a text selection is inserted only on the not-known edge of a complete look-up; range compression of sub-selectors compares resources and consecutive handles. Exactness of what the API iterators return is not decided.",
            "trusts rustc MIR, syn, rules/owners.json (reviewed), the ACCESSOR table in lib/props/c01.py; C01.SORTED of the design is not built",
            "DESIGN.md section 4 C01, A3, A4, A9", "mir+syn"),
    "C02": ("other", "cascade coverage matrix derived from index field types vs fields consulted by each removal routine (syn); truth table of the retain predicate; guard shape of non-strict removal; collect/consume pairing of DELETE; panic-source reachability from the removal entry points (MIR)",
            "Decides for all stores the structural necessary conditions of an exact, dangling-free cascade: for each of the five item kinds, the removal routine consults every live reverse index whose key mentions that kind (matrix derived from the field types, 11 cells); cascades that gather handles from several rows use a set; Annotation::remove_data keeps exactly the pairs that differ from (set, data) (4-row truth table); non-strict removal deletes the annotation only under an emptiness test; DELETE queries consume every collection they fill; and no undischarged panic source is reachable from the removal entry points ('succeeds whenever the item exists'). Exactness of the cascade for each store shape is not decided.",
            "trusts syn/rustc, the ROUTINES and SUBSTITUTE tables in lib/props/c02.py, rules/panic_safe.json[C02]",
            "DESIGN.md section 4 C02", "syn+mir"),
    "C03": ("other", "ownership of id maps (MIR field effects), provenance and dominance rules on StoreFor::insert/remove (MIR), sibling contradiction on liveness tests, must-call of the kind check, panic reachability of the id parser, table agreement inside reindex() and gap-convention agreement between gaps() and Handle::reindex",
            "Decides for every history and every lookup string the structural necessary conditions: only sanctioned functions write id maps; StoreFor::remove deletes exactly the removed item's own id (provenance of the HashMap key) before the tombstone; no liveness test of a store slot ignores tombstones; the temporary-id parser has no reachable panic source and resolve_id checks the kind prefix; the id-map insertion is confined to the branch where has(id) is false and generate_id retries; reindex() remaps each id map with the gap table of its own store, the shift convention of gaps() and Handle::reindex agree (evaluated on the equality case), and every live index mentioning a renumbered handle type must be remapped (5 known findings: reindex() is incomplete).",
            "trusts rustc MIR/syn and the owners table; the arithmetic of compaction beyond the gap convention and the remapping of handles stored inside annotations are not decided",
            "DESIGN.md section 4 C03", "mir+syn"),
    "C04": ("proof", "formula extraction from the syntax tree of the offset constructors / reporters and exhaustive evaluation over every cursor combination on small texts (finite decision procedure for piecewise-linear guard trees); provenance of stored selections (MIR); inventory of TextSelection literal sites",
            "For every pair of cursors of either alignment (in range, out of range, inverted, zero-width) on texts of length 0..3 (0..5 thorough), and every parent selection: the three constructors accept an offset exactly when it denotes 0 <= begin <= end <= length of the addressed text (resource or parent annotation) and then resolve to exactly those positions; every offset reported by Selector::offset_with_mode and TextSelection::relative_offset in each of the four modes has non-positive end-aligned cursors and re-resolves (through the library's own extracted resolver) to the same range; the cursor-kind to OffsetMode map is the identity. Structurally: TextSelection values are built only inside the four reviewed functions and everything AnnotationStore::selector stores comes from a validating constructor.",
            "trusted: syn, the evaluator vocabulary (anything else is reported as not discharged), the model of an empty position index, the piecewise-linear small-model argument; that the selected text equals those codepoints is C12's share",
            "DESIGN.md section 4 C04, A7", "syn+mir"),
    "C12": ("other", "abstract interpretation of units (codepoint vs byte) and coordinate spaces over MIR; guard-shape rule on the conversion functions (syn); dominance of the interval guard; who-may-read rule for the knob; consumer/filter rule for the position index",
            "Decides, for every text and every setting, the structural necessary conditions: in the 796 functions of the text modules no codepoint position is ever added to, compared with, passed as or stored as a byte position (unit inference seeded from the conversion functions, std string functions and declared field units; 957 values typed) and no two absolute positions are added; the two conversion functions answer Ok only under an exact match of the cursor and otherwise fall to Err, with no reachable panic; create_milestones runs only under interval > 0; milestone_interval is read only where milestones are placed; every exposure of the position index filters milestone-only entries (three raw low-level accessors are known findings). Numeric exactness of the counting loops is not decided.",
            "trusts rustc MIR, the unit seed tables in lib/units.py (each field unit is also checked at its initialisation sites), rules/units_ok.json (6 error-payload lines), syn",
            "DESIGN.md section 4 C12, A6", "mir+syn"),
    "C07": ("other", "unit / coordinate-space inference over MIR; receiver-chain rule for haystacks (syn); taint from transformed copies (MIR provenance); finite evaluation of the capture-group folds; shape rule for the segmentation cursor",
            "Decides the structural necessary conditions for every text and sub-selection: no codepoint/byte mix-up and no doubly applied begin offset anywhere in the search / split / trim / regex / segmentation code (this covers trim_text's cursors); FindText on a sub-selection uses the selection's own text as haystack; byte positions found in a lower/upper-cased or replaced copy never reach conversions on the original (one known finding: case-insensitive search); Match::begin / Match::end equal min start / max end for every list of up to three optional capture groups; each segment is cursor..X followed by cursor = X and iteration stops exactly at cursor >= end. Regex semantics and case folding are not decided.",
            "trusts rustc MIR/syn, unit seed tables, the evaluator; matches themselves come from std/regex (trusted)",
            "DESIGN.md section 4 C07, A6, A9", "mir+syn"),
    "C06": ("proof", "extraction of the candidate-range arms and of the relation from the syntax tree; exhaustive finite evaluation that the chosen ranges contain every related selection (A7); structural rules for the filter, the self-exclusion, de-duplication and sort-before-dedup",
            "None missing: for every operator value (12 variants x negate x all x limit x whitespace, 49 groups), every reference selection (every reference set of up to two selections in the thorough tier) and every candidate selection of a text of length 4 (6 thorough), if the extracted relation holds then one of the index ranges chosen by init_textseliters contains the candidate's begin (forward) or end (backward) - including selections touching the very end of the text, references in the second half, zero-width selections and negated operators. No extras: every yielded handle is guarded by refset.test with the iterator's own operator. Only Equals returns the reference: both directions carry the unconditional has_handle exclusion. Each once: per-reference iterators are de-duplicated, and every Vec::dedup() in the crate (21 sites) follows a total sort of the same vector.",
            "trusted: syn, the evaluator, the range model (checked structurally by C06.ITER), the relation model (proved against its definition by C13); result order and the Equals shortcut are not decided",
            "DESIGN.md section 4 C06, A7", "syn"),
    "C14": ("other", "effect-ordering analysis over MIR: persistent-write call sites (field effects through &mut parameters, closed over the call graph, restricted to calls that receive the entry's own &mut state) paired with later fallible exits on a common CFG path; descent into reachable non-atomic functions",
            "For each of the 13 mutating entry points (annotate, annotate_from_iter/file, insert_data, add_resource, add_dataset, StoreFor::insert, query_mut ...) the check enumerates every way an error can be returned after persistent state may have been written: pairs (writing call, later `?`/Err exit) inside the entry, and every reachable function that is itself non-atomic. The library has no rollback, so today's 80+ pairs are genuine and listed as known findings (StoreFor::insert pushes before inserted() can fail, annotate resolves the target and inserts data before the annotation, batches stop half-way); what is decided is that no *new* write-then-fail path appears: a new fallible step after a commit point, a write moved before a check, or a batch made streaming is reported.",
            "trusts rustc MIR and the over-approximated call graph; 'may write' is an over-approximation (callers of writers are writers); observational equality after a failure is not decided beyond 'no write before the error'",
            "DESIGN.md section 4 C14, A5", "mir"),
    "C15": ("other", "table agreement of selector kinds between writer and reader arms (syn); dominance of with_target over Ok exits (MIR); sibling agreement of the eight column writers and of the three row literals; finite evaluation of Cursor print/parse; shape of the data/set id loop",
            "Decides the structural necessary conditions of the CSV round trip for every store: each of the six simple selector kinds the writer emits has an arm in the reader's simple branch and in its complex branch; every Ok exit of the row reader is dominated by with_target (rows without data keep their target); all eight column writers expand both internal ranged selector kinds into one ';' slot per contained selector, so columns stay aligned; Display and TryFrom<&str> for Cursor are mutually inverse for both alignments including \"-0\" (evaluated from the extracted bodies); the writer appends exactly one data id and one set id per data item; the three row literals build shared columns identically (one known finding: the Id column). Value text and files are not decided.",
            "trusts syn/rustc, the evaluator; identifiers containing ';' are outside the claim",
            "DESIGN.md section 4 C15", "syn+mir"),
    "C17": ("other", "string-context discipline of the hand-written JSON exporter (syn): JSON context of every format placeholder by quote parity; separator/bracket typestate by path-sensitive abstract interpretation of the string accumulators with per-context function summaries; exhaustive typed rendering per DataValue variant; sub-selector iteration not narrowed",
            "Decides, for every input, the well-formedness clauses that are visible in the shape of the exporter: every placeholder inside a JSON string literal receives a number, a safe-charset value or the output of the complete escaper, and every placeholder in value position the output of a JSON producer (ESC); the escaper is complete (serde_json, or hand-written over chars with quote, backslash and control range) and text is never rebuilt from single bytes (BYTES); value_to_json has an explicit arm per DataValue variant whose rendering fits the payload type (TYPE); on every path through to_webannotation / output_selector / output_subselectors / serialize_context* members and elements are separated by exactly one comma, brackets balance and each function returns a complete value (SEP); every sub-selector is emitted, start/end come from begin()/end() of one selection (TARGET). Faithfulness of the body beyond JSON types and the offset arithmetic behind begin()/end() are not decided (offsets: C04/C12).",
            "trusts syn's parse, serde_json's string serialiser as the complete escaper, and that chrono's to_rfc3339 and nanoid emit no quote, backslash or control character; the separator typestate treats opaque conditions as free booleans (correlated by text), so infeasible paths can only add findings, never hide one",
            "DESIGN.md section 4 C17", "syn"),
    "C18": ("other", "finite evaluation of the extracted syntax trees of protect_text's per-annotation step, ResultItem<Annotation>::validate_text and AnnotationStore::validate_text over all modes x annotation shapes x stored references, with text/digest/delimiter as opaque injective tokens; writer/reader key-table agreement; loop-carried-state dataflow rule on the store-level loop",
            "Decides that the two halves of text validation agree for every store: for each of the four modes, 0/1/2 text selections, both sides of the Auto threshold, with and without a delimiter and with or without pre-existing references, what protect_text queues makes validate_text answer Some(true) on the same text token and Some(false) on a different one, and every annotation with text receives validation information (ROUND); each reference is stored under the key and dataset its reader looks up (KEYS); validate_text's verdict table is the required one for all 18 combinations of stored references (VERDICT); the store-level counters partition the annotations by their own verdict (AGG) and no state carried between loop iterations flows into a verdict (DIRECT). That text_join and SHA-1 are functions of exactly the selected characters, and persistence across save/reload, are not decided.",
            "trusts syn's parse and the evaluator (lib/formula.py); text, digest and delimiter are modelled as opaque injective tokens; any cross-iteration cache in the store-level loop is reported because the adequacy of a cache key cannot be decided statically",
            "DESIGN.md section 4 C18", "syn"),
}

NA = {
    "C16": "Piece-by-piece text identity and re-segmentation are statements about run-time texts and fragment geometry computed by a 450-line buffer walk; no structural clause of that algorithm is a genuine necessary condition that a static rule can name without freezing the code (DESIGN.md section 6). The store-unchanged clause is reported under C20.",
}


def main():
    props = [json.loads(l) for l in open(os.path.join(VERIF, "properties.jsonl"))]
    checks = []
    na = []
    for p in props:
        pid = p["id"]
        if pid in CHECKS and os.path.exists(os.path.join(VERIF, "lib", "props", pid.lower() + ".py")):
            cat, tech, text, note, ref, eng = CHECKS[pid]
            checks.append({
                "property_id": pid,
                "quick_cmd": "bin/check %s --tier quick" % pid,
                "thorough_cmd": "bin/check %s --tier thorough" % pid,
                "evidence_file": "evidence/%s.json" % pid,
                "replay_cmd_template": "bin/check %s --replay {path}" % pid,
                "engine": eng,
                "level_claimed": {"category": cat, "text": text, "design_ref": ref},
                "level_note": note,
                "technique": tech,
            })
        else:
            na.append({"property_id": pid, "reason": NA.get(pid, "check not built yet (framework under construction); see DESIGN.md for the planned rule set")})
    m = {
        "version": 1,
        "setup_cmd": "bin/setup",
        "hooks": {"guard": "stam_verif",
                  "enable": "none needed: the analyses read the unmodified build of /repo (no hooks, no instrumentation)",
                  "baseline_off_cmd": "cd /repo && cargo test --workspace --no-fail-fast --offline",
                  "source_commits": [], "add_only": True},
        "engines": [
            {"name": "syn", "path": "engines/stamfacts-syn", "serves_properties": sorted(k for k, v in CHECKS.items() if "syn" in v[5]),
             "kind_free_text": "syn 2 AST dump of the crate (follows mod declarations); rules in lib/props/*.py"},
            {"name": "mir", "path": "engines/stamfacts-mir", "serves_properties": sorted(k for k, v in CHECKS.items() if "mir" in v[5]),
             "kind_free_text": "rustc_private driver (nightly) dumping MIR with resolved callees, field names, impl table; injected with RUSTC_WORKSPACE_WRAPPER under cargo +nightly check"},
        ],
        "checks": checks,
        "notes": "Static analysis only: every verdict is computed from /repo's current source (syntax tree, type-checked MIR, call graph) without executing stam code. known_findings.json lists genuine defects that are recorded rather than repaired; fixed: entries name the fix: commits in /repo.",
        "not_applicable": na,
    }
    with open(os.path.join(VERIF, "MANIFEST.json"), "w") as fh:
        json.dump(m, fh, indent=1)
    print("claimed:", [c["property_id"] for c in checks])
    print("n/a:", [n["property_id"] for n in na])


if __name__ == "__main__":
    main()
