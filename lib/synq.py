"""Queries over the syn AST dump (see engines/stamfacts-syn)."""
import re


def is_node(x):
    return isinstance(x, dict) and "k" in x


def children(node):
    for k, v in node.items():
        if isinstance(v, dict):
            yield v
        elif isinstance(v, list):
            for e in v:
                if isinstance(e, dict):
                    yield e
                elif isinstance(e, list):
                    for z in e:
                        if isinstance(z, dict):
                            yield z


def walk(node, skip_closures=False, skip_items=True):
    """pre-order walk over all dict nodes (AST nodes and helper dicts)"""
    stack = [node]
    while stack:
        n = stack.pop()
        if not isinstance(n, dict):
            continue
        yield n
        if skip_closures and n.get("k") == "closure" and n is not node:
            continue
        if skip_items and n.get("k") == "itemstmt":
            continue
        ch = list(children(n))
        stack.extend(reversed(ch))


def find(node, kind, **kw):
    for n in walk(node):
        if n.get("k") == kind and all(n.get(a) == b for a, b in kw.items()):
            yield n


def has_cfg_test(attrs):
    for a in attrs or []:
        if a.get("path") == "cfg" and "test" in a.get("tokens", ""):
            return True
    return False


def cfg_feature(attrs):
    for a in attrs or []:
        if a.get("path") == "cfg":
            m = re.search(r'feature\s*=\s*"([^"]+)"', a.get("tokens", ""))
            if m:
                return m.group(1)
    return None


def norm_ty(s):
    """normalised type string: no whitespace, no lifetimes"""
    s = re.sub(r"\s+", "", s)
    s = re.sub(r"'[a-z_]+,?", "", s)
    s = s.replace("<>", "")
    return s


class Fn:
    def __init__(self, node, file, impl=None, trait_def=None, mod=None):
        self.node = node
        self.file = file
        self.name = node["name"]
        self.impl = impl
        self.self_ty = norm_ty(impl["self_ty"]["s"]) if impl else None
        self.trait = norm_ty(impl["trait"]) if impl and impl.get("trait") else None
        self.in_trait = trait_def["name"] if trait_def else None
        self.line = node["l"]
        self.mod = mod
        self.body = node.get("body")
        self.sig = node["sig"]
        self.vis = node.get("vis")

    @property
    def qual(self):
        if self.impl:
            if self.trait:
                return "<%s as %s>::%s" % (self.self_ty, self.trait, self.name)
            return "%s::%s" % (self.self_ty, self.name)
        if self.in_trait:
            return "%s::%s" % (self.in_trait, self.name)
        return "%s::%s" % (self.mod, self.name) if self.mod else self.name

    def __repr__(self):
        return "Fn(%s @%s:%d)" % (self.qual, self.file, self.line)


class Syn:
    def __init__(self, data, include_tests=False):
        self.data = data
        self.fns = []
        self.structs = {}
        self.enums = {}
        self.impls = []
        self.traits = {}
        self.consts = {}
        self.files = {}
        for f in data["files"]:
            self.files[f["file"]] = f
            if f["file"].endswith("tests.rs") and not include_tests:
                continue
            modname = f["file"].replace("src/", "").replace(".rs", "").replace("/", "::")
            self._items(f["items"], f["file"], modname, include_tests)

    def _items(self, items, file, mod, include_tests):
        for it in items:
            k = it.get("k")
            if not include_tests and has_cfg_test(it.get("attrs")):
                continue
            if k == "fn":
                self.fns.append(Fn(it, file, mod=mod))
            elif k == "impl":
                it["_file"] = file
                self.impls.append(it)
                for m in it["items"]:
                    if m.get("k") == "fn":
                        self.fns.append(Fn(m, file, impl=it, mod=mod))
            elif k == "trait":
                it["_file"] = file
                self.traits[it["name"]] = it
                for m in it["items"]:
                    if m.get("k") == "fn" and m.get("body"):
                        self.fns.append(Fn(m, file, trait_def=it, mod=mod))
            elif k == "struct":
                it["_file"] = file
                self.structs[it["name"]] = it
            elif k == "enum":
                it["_file"] = file
                self.enums[it["name"]] = it
            elif k in ("const", "static"):
                it["_file"] = file
                self.consts[it["name"]] = it
            elif k == "mod" and it.get("inline"):
                self._items(it["items"], file, mod + "::" + it["name"], include_tests)

    def find_fns(self, name=None, self_ty=None, trait=None, file=None, in_trait=None):
        out = []
        for f in self.fns:
            if name is not None and f.name != name:
                continue
            if self_ty is not None and (f.self_ty is None or not _ty_match(f.self_ty, self_ty)):
                continue
            if trait is not None and (f.trait is None or not _ty_match(f.trait, trait)):
                continue
            if in_trait is not None and f.in_trait != in_trait:
                continue
            if file is not None and f.file != file:
                continue
            out.append(f)
        return out

    def fn(self, name, self_ty=None, trait=None, file=None, in_trait=None):
        r = self.find_fns(name, self_ty, trait, file, in_trait)
        if len(r) != 1:
            from core import AnchorMissing
            raise AnchorMissing("fn %s self_ty=%s trait=%s in_trait=%s file=%s (found %d)" % (name, self_ty, trait, in_trait, file, len(r)))
        return r[0]


def _ty_match(actual, want):
    """want may be a regex-free prefix pattern: exact match on normalised type, or
    `Name<*>` style: want without generics matches actual's head"""
    want = norm_ty(want)
    if actual == want:
        return True
    if "<" not in want:
        head = actual.split("<", 1)[0]
        return head == want
    return False


# ------------------------------------------------------------------ unparse
PREC = {"||": 1, "&&": 2, "==": 3, "!=": 3, "<": 3, "<=": 3, ">": 3, ">=": 3,
        "|": 4, "^": 5, "&": 6, "<<": 7, ">>": 7, "+": 8, "-": 8, "*": 9, "/": 9, "%": 9}


def unparse(e, strip_ref=False):
    """canonical source-like rendering of an expression node (whitespace-free where possible)"""
    if e is None:
        return ""
    k = e.get("k")
    u = lambda x: unparse(x, strip_ref)
    if k == "lit":
        if e["t"] == "str":
            return '"%s"' % e["v"].replace("\\", "\\\\").replace('"', '\\"')
        if e["t"] == "char":
            return "'%s'" % e["v"]
        if e["t"] == "bool":
            return "true" if e["v"] else "false"
        return str(e["v"])
    if k == "path":
        return "::".join(e["path"])
    if k == "field":
        return "%s.%s" % (u(e["base"]), e["member"])
    if k == "mcall":
        return "%s.%s(%s)" % (u(e["recv"]), e["method"], ",".join(u(a) for a in e["args"]))
    if k == "call":
        return "%s(%s)" % (u(e["func"]), ",".join(u(a) for a in e["args"]))
    if k == "binary":
        return "(%s%s%s)" % (u(e["left"]), e["op"], u(e["right"]))
    if k == "unary":
        if strip_ref and e["op"] == "*":
            return u(e["e"])
        return "%s%s" % (e["op"], u(e["e"]))
    if k == "paren":
        return u(e["e"])
    if k == "ref":
        if strip_ref:
            return u(e["e"])
        return "&%s%s" % ("mut " if e.get("mut") else "", u(e["e"]))
    if k == "try":
        return "%s?" % u(e["e"])
    if k == "index":
        return "%s[%s]" % (u(e["base"]), u(e["index"]))
    if k == "cast":
        return "(%s as %s)" % (u(e["e"]), norm_ty(e["ty"]["s"]))
    if k == "tuple":
        return "(%s)" % ",".join(u(a) for a in e["elems"])
    if k == "array":
        return "[%s]" % ",".join(u(a) for a in e["elems"])
    if k == "range":
        return "%s%s%s" % (u(e.get("start")), "..=" if e.get("inclusive") else "..", u(e.get("end")))
    if k == "macro":
        if "args" in e:
            s = "%s!(%s" % (e["name"], ",".join(u(a) for a in e["args"]))
            if "pat" in e:
                s += "," + re.sub(r"\s+", "", e["pat"]["s"])
            return s + ")"
        return "%s!(%s)" % (e["name"], re.sub(r"\s+", " ", e.get("tokens", "")))
    if k == "structlit":
        return "%s{%s}" % ("::".join(e["path"]), ",".join("%s:%s" % (f["name"], u(f["e"])) for f in e["fields"]))
    if k == "closure":
        return "|%s|%s" % (",".join(re.sub(r"\s+", "", p["s"]) for p in e["inputs"]), u(e["body"]))
    if k == "if":
        s = "if %s %s" % (u(e["cond"]), u_block(e["then"], strip_ref))
        if e.get("else"):
            s += " else %s" % u(e["else"])
        return s
    if k == "letexpr":
        return "let %s=%s" % (re.sub(r"\s+", "", e["pat"]["s"]), u(e["e"]))
    if k == "blockexpr":
        return u_block(e["block"], strip_ref)
    if k == "block":
        return u_block(e, strip_ref)
    if k == "match":
        arms = []
        for a in e["arms"]:
            g = (" if " + u(a["guard"])) if a.get("guard") else ""
            arms.append("%s%s=>%s" % (re.sub(r"\s+", "", a["pat"]["s"]), g, u(a["body"])))
        return "match %s{%s}" % (u(e["e"]), ",".join(arms))
    if k == "return":
        return "return %s" % u(e.get("e"))
    if k == "break":
        return "break %s" % u(e.get("e"))
    if k == "continue":
        return "continue"
    if k == "assign":
        return "%s=%s" % (u(e["left"]), u(e["right"]))
    if k == "for":
        return "for %s in %s %s" % (re.sub(r"\s+", "", e["pat"]["s"]), u(e["iter"]), u_block(e["body"], strip_ref))
    if k == "while":
        return "while %s %s" % (u(e["cond"]), u_block(e["body"], strip_ref))
    if k == "loop":
        return "loop %s" % u_block(e["body"], strip_ref)
    if k == "unsafe":
        return "unsafe %s" % u_block(e["block"], strip_ref)
    if k == "repeat":
        return "[%s;%s]" % (u(e["e"]), u(e["len"]))
    if k == "let":
        s = "let %s" % re.sub(r"\s+", "", e["pat"]["s"])
        if e.get("init"):
            s += "=" + u(e["init"])
        if e.get("else"):
            s += " else " + u(e["else"])
        return s
    if k == "exprstmt":
        return u(e["e"]) + (";" if e.get("semi") else "")
    if k == "itemstmt":
        return "<item>"
    return "<%s>" % k


def u_block(b, strip_ref=False):
    return "{%s}" % " ".join(unparse(s, strip_ref) for s in b["stmts"])


def strip(e, casts=False):
    """strip parens, references, derefs (and optionally `as` casts)"""
    while isinstance(e, dict):
        k = e.get("k")
        if k in ("paren", "ref") or (k == "unary" and e.get("op") == "*") or (casts and k == "cast"):
            e = e["e"]
        else:
            break
    return e


def block_tail(b):
    """the tail expression of a block (or None)"""
    if not b["stmts"]:
        return None
    last = b["stmts"][-1]
    if last.get("k") == "exprstmt" and not last.get("semi"):
        return last["e"]
    return None


def method_chain(e):
    """for a.b().c(x).d: returns (base_expr, [(method, args)...]) flattening mcalls/fields/try"""
    chain = []
    while True:
        e = strip(e) if e.get("k") in ("paren",) else e
        k = e.get("k")
        if k == "mcall":
            chain.append(("m", e["method"], e["args"], e))
            e = e["recv"]
        elif k == "field":
            chain.append(("f", e["member"], None, e))
            e = e["base"]
        elif k == "try":
            chain.append(("?", "?", None, e))
            e = e["e"]
        elif k == "paren":
            e = e["e"]
        else:
            break
    chain.reverse()
    return e, chain


def pat_names(p):
    """all identifiers bound by a pattern"""
    out = []
    for n in walk(p):
        if n.get("k") == "pat" and n.get("p") == "ident":
            out.append(n["name"])
    return out


def str_lits(node):
    return [n["v"] for n in walk(node) if n.get("k") == "lit" and n.get("t") == "str"]


def mentions(node, name):
    for n in walk(node):
        if n.get("k") == "path" and n["path"] == [name]:
            return True
    return False
