"""A7: finite evaluation of loop-free comparison formulas extracted from the syntax tree.

The evaluator interprets an *expression tree* (not compiled code) over small integers so
that every weak ordering of the position variables is realised.  It understands only a
closed vocabulary (comparisons, boolean connectives, +/- on unsigned values, Option
literals, pattern bindings, struct literals of the operator enum, the whitespace-gap
idiom).  Anything else raises Unknown: the obligation is then *not discharged*.

`for` loops are supported only over a sequence whose length is fixed by the obligation
(singleton-collapse law: trip count 1), i.e. as bounded unrolling."""
import re


class Unknown(Exception):
    pass


class Panic(Exception):
    """the formula reaches a panic source (unsigned underflow, unwrap on None, unreachable!)"""

    def __init__(self, kind, line=None):
        Exception.__init__(self, kind)
        self.kind = kind
        self.line = line


class Return(Exception):
    def __init__(self, v):
        self.v = v


class Break(Exception):
    def __init__(self, v=()):
        self.v = v


class Continue(Exception):
    pass


class OpVal:
    """a value of the TextSelectionOperator enum: variant + field dict"""

    def __init__(self, variant, fields):
        self.variant = variant
        self.fields = dict(fields)

    def key(self):
        return (self.variant, tuple(sorted(self.fields.items(), key=lambda kv: kv[0])))

    def __eq__(self, o):
        return isinstance(o, OpVal) and self.key() == o.key()

    def __hash__(self):
        return hash(self.key())

    def __repr__(self):
        return "%s{%s}" % (self.variant, ",".join("%s:%s" % (k, fmt(v)) for k, v in sorted(self.fields.items())))


def fmt(v):
    if v is None:
        return "None"
    if isinstance(v, tuple) and v and v[0] == "some":
        return "Some(%s)" % fmt(v[1])
    if v is True:
        return "true"
    if v is False:
        return "false"
    return str(v)


class SInt(int):
    """a signed machine integer (isize): subtraction may go below zero"""

    def __repr__(self):
        return "%di" % int(self)


class Interval(dict):
    pass


class EnumVal:
    """a value of some enum: variant name + positional payload"""

    def __init__(self, name, args=()):
        self.name = name
        self.args = tuple(args)

    def __eq__(self, o):
        return isinstance(o, EnumVal) and self.name == o.name and self.args == o.args

    def __hash__(self):
        return hash((self.name, self.args))

    def __repr__(self):
        return "%s(%s)" % (self.name, ",".join(fmt(a) for a in self.args)) if self.args else self.name


class StructVal(dict):
    """a struct value: field dict + type name"""

    def __init__(self, name, fields):
        dict.__init__(self, fields)
        self.tyname = name

    def __repr__(self):
        return "%s{%s}" % (self.tyname, ",".join("%s:%s" % (k, fmt(v)) for k, v in sorted(self.items())))

    def __hash__(self):
        return hash((self.tyname, tuple(sorted((k, repr(v)) for k, v in self.items()))))


def ok(v):
    return ("ok", v)


def err(v=None):
    return ("err", v)


def some(v):
    return ("some", v)


def is_some(v):
    return isinstance(v, tuple) and len(v) == 2 and v[0] == "some"


# ---------------------------------------------------------------- pattern matching
def match_pat(p, v, binds):
    """match a syn pattern against a value; returns True/False, fills binds"""
    k = p.get("p")
    if k == "wild" or k == "rest":
        return True
    if k == "ident":
        if p.get("sub"):
            if not match_pat(p["sub"], v, binds):
                return False
        # a bare identifier that names a unit variant / constant? treat None specially
        if p["name"] == "None":
            return v is None
        binds[p["name"]] = v
        return True
    if k == "ref":
        return match_pat(p["pat"], v, binds)
    if k == "typed":
        return match_pat(p["pat"], v, binds)
    if k == "lit":
        return v == p["lit"]["v"] if p["lit"]["t"] != "int" else v == int(p["lit"]["v"])
    if k == "or":
        for c in p["cases"]:
            b = {}
            if match_pat(c, v, b):
                binds.update(b)
                return True
        return False
    if k == "path":
        name = p["path"][-1]
        if name == "None":
            return v is None
        if isinstance(v, OpVal):
            return v.variant == name
        if isinstance(v, EnumVal):
            return v.name == name and not v.args
        raise Unknown("path pattern %s" % p["s"])
    if k == "tuplestruct":
        name = p["path"][-1]
        if name == "Some":
            return is_some(v) and match_pat(p["elems"][0], v[1], binds)
        if name in ("Ok",):
            return isinstance(v, tuple) and v[0] == "ok" and match_pat(p["elems"][0], v[1], binds)
        if name in ("Err",):
            if not (isinstance(v, tuple) and v and v[0] == "err"):
                return False
            sub = p["elems"][0] if p.get("elems") else None
            if sub is not None and sub.get("p") not in ("wild", "rest", None):
                try:
                    return match_pat(sub, v[1], binds)
                except Unknown:
                    return True  # opaque error payloads are not modelled
            return True
        if isinstance(v, EnumVal):
            if v.name != name:
                return False
            if len(v.args) != len(p["elems"]):
                raise Unknown("arity of pattern %s" % p["s"])
            return all(match_pat(e, x, binds) for e, x in zip(p["elems"], v.args))
        if isinstance(v, tuple) and v and v[0] in ("ok", "err", "some"):
            return False
        if v is None:
            return False
        if isinstance(v, StructVal) and v.tyname != name:
            return False  # a struct-like variant of the same enum
        raise Unknown("tuple-struct pattern %s" % p["s"])
    if k == "struct":
        name = p["path"][-1]
        if isinstance(v, StructVal):
            if v.tyname != name:
                return False
            for f in p["fields"]:
                if f["name"] not in v:
                    raise Unknown("field %s not in %s" % (f["name"], name))
                if not match_pat(f["pat"], v[f["name"]], binds):
                    return False
            return True
        if isinstance(v, EnumVal):
            if v.name != name:
                return False  # another variant of the same enum
            raise Unknown("struct pattern on tuple variant %s" % name)
        if not isinstance(v, OpVal):
            raise Unknown("struct pattern on non-operator")
        if v.variant != name:
            return False
        for f in p["fields"]:
            if f["name"] not in v.fields:
                raise Unknown("field %s not in %s" % (f["name"], v.variant))
            if not match_pat(f["pat"], v.fields[f["name"]], binds):
                return False
        return True
    if k == "tuple":
        if not isinstance(v, tuple) or len(v) != len(p["elems"]):
            raise Unknown("tuple pattern")
        return all(match_pat(e, x, binds) for e, x in zip(p["elems"], v))
    raise Unknown("pattern kind %s" % k)


# ---------------------------------------------------------------- evaluator
class Evaluator:
    def __init__(self, hooks=None, opvariants=None):
        # hooks: dict name -> callable(evaluator, recv_value, args_values, node, env) for method calls
        self.hooks = hooks or {}
        self.opvariants = opvariants or {}
        self.ws_keys = []  # whitespace-gap predicate instances used (a, b)
        self.ws_value = True
        self.steps = 0
        self.opaque_types = {"StamError"}
        self.globals = {}  # integer constants of the crate (name -> value)
        self.globals_used = set()

    def eval(self, e, env):
        self.steps += 1
        if self.steps > 200000:
            raise Unknown("step limit")
        k = e.get("k")
        m = getattr(self, "e_" + k, None)
        if m is None:
            raise Unknown("expression kind %s (line %s)" % (k, e.get("l")))
        return m(e, env)

    # literals and names
    def e_lit(self, e, env):
        if e["t"] == "int":
            return int(e["v"])
        if e["t"] == "bool":
            return bool(e["v"])
        if e["t"] in ("str", "char"):
            return e["v"]
        if e["t"] == "float":
            return float(str(e["v"]).replace("_", "").rstrip("f3264"))
        raise Unknown("literal type %s" % e["t"])

    def e_path(self, e, env):
        p = e["path"]
        if len(p) == 1:
            if p[0] in env:
                return env[p[0]]
            if p[0] == "None":
                return None
            if p[0] in ("true", "false"):
                return p[0] == "true"
            if p[0] in self.globals:
                self.globals_used.add(p[0])
                return self.globals[p[0]]
            raise Unknown("unbound name %s (line %s)" % (p[0], e.get("l")))
        if p[-1] == "None":
            return None
        if len(p) >= 2 and p[-1][:1].isupper() and p[-2][:1].isupper():
            return EnumVal(p[-1])
        if len(p) >= 2 and p[-1][:1].islower() and p[-2][:1].isupper():
            return ("fnpath", "::".join(p))  # a function named as a value (Default::default, Vec::new)
        raise Unknown("path %s" % "::".join(p))

    def e_paren(self, e, env):
        return self.eval(e["e"], env)

    def e_ref(self, e, env):
        return self.eval(e["e"], env)

    def e_unary(self, e, env):
        v = self.eval(e["e"], env)
        if e["op"] == "*":
            if isinstance(v, StructVal) and v.tyname == "Cell":
                return v["v"]
            return v
        if e["op"] == "!":
            if not isinstance(v, bool):
                raise Unknown("! on non-bool")
            return not v
        if e["op"] == "-" and isinstance(v, int) and not isinstance(v, bool):
            return SInt(-int(v))
        raise Unknown("unary %s" % e["op"])

    def e_binary(self, e, env):
        op = e["op"]
        if op == "&&":
            l = self.eval(e["left"], env)
            if not isinstance(l, bool):
                raise Unknown("&& on non-bool")
            return l and self._bool(self.eval(e["right"], env))
        if op == "||":
            l = self.eval(e["left"], env)
            if not isinstance(l, bool):
                raise Unknown("|| on non-bool")
            return l or self._bool(self.eval(e["right"], env))
        if op in ("+=", "-="):
            r = self.eval(e["right"], env)
            tgt = e["left"]
            cur = self.eval(tgt, env)
            if op == "+=" and isinstance(cur, str) and isinstance(r, str):
                if tgt.get("k") == "path" and len(tgt["path"]) == 1 and tgt["path"][0] in env:
                    env["__assign__"](tgt["path"][0], cur + r)
                    return ()
            if not (isinstance(cur, int) and isinstance(r, int)) or isinstance(cur, bool):
                raise Unknown("compound assignment on non-int")
            if op == "-=" and cur < r and not isinstance(cur, SInt):
                raise Panic("unsigned-underflow", e.get("l"))
            nv = cur + r if op == "+=" else cur - r
            if isinstance(cur, SInt) or isinstance(r, SInt):
                nv = SInt(nv)
            if tgt.get("k") == "field":
                b = self.eval(tgt["base"], env)
                if isinstance(b, dict):
                    b[tgt["member"]] = nv
                    return ()
            if tgt.get("k") == "path" and len(tgt["path"]) == 1 and tgt["path"][0] in env:
                env["__assign__"](tgt["path"][0], nv)
                return ()
            raise Unknown("compound assignment target")
        l = self.eval(e["left"], env)
        r = self.eval(e["right"], env)
        if op in ("==", "!="):
            if isinstance(l, Interval) and isinstance(r, Interval):
                # derived PartialEq over the struct's fields
                eq = all(l.get(f) == r.get(f) for f in set(l) | set(r))
            else:
                eq = (l == r)
            return eq if op == "==" else not eq
        if op in ("<", "<=", ">", ">="):
            if isinstance(l, float) and isinstance(r, float):
                return {"<": l < r, "<=": l <= r, ">": l > r, ">=": l >= r}[op]
            if not (isinstance(l, int) and isinstance(r, int)) or isinstance(l, bool) or isinstance(r, bool):
                raise Unknown("ordering on non-int")
            return {"<": l < r, "<=": l <= r, ">": l > r, ">=": l >= r}[op]
        if op in ("/", "%"):
            if not (isinstance(l, int) and isinstance(r, int)) or isinstance(l, bool) or isinstance(r, bool):
                raise Unknown("arith on non-int")
            if r == 0:
                raise Panic("division-by-zero", e.get("l"))
            if l < 0 or r < 0:
                raise Unknown("signed division")
            return l // r if op == "/" else l % r
        if op in ("+", "-", "*"):
            if not (isinstance(l, int) and isinstance(r, int)):
                raise Unknown("arith on non-int")
            signed = isinstance(l, SInt) or isinstance(r, SInt)
            if op == "+":
                v = int(l) + int(r)
            elif op == "*":
                v = int(l) * int(r)
            else:
                if not signed and l < r:
                    raise Panic("unsigned-underflow", e.get("l"))
                v = int(l) - int(r)
            return SInt(v) if signed else v
        raise Unknown("binary %s" % op)

    def _bool(self, v):
        if not isinstance(v, bool):
            raise Unknown("non-bool in boolean context")
        return v

    def e_field(self, e, env):
        b = self.eval(e["base"], env)
        if isinstance(b, Interval):
            if e["member"] in b:
                return b[e["member"]]
            raise Unknown("field %s" % e["member"])
        if isinstance(b, StructVal):
            if e["member"] in b:
                return b[e["member"]]
            raise Unknown("field %s" % e["member"])
        if isinstance(b, tuple) and e["member"].isdigit():
            return b[int(e["member"])]
        raise Unknown("field access .%s on %r" % (e["member"], type(b)))

    def e_array(self, e, env):
        return [self.eval(x, env) for x in e["elems"]]

    def e_tuple(self, e, env):
        return tuple(self.eval(x, env) for x in e["elems"])

    def e_call(self, e, env):
        f = e["func"]
        if f.get("k") == "path":
            name = f["path"][-1]
            if name == "Some" and len(e["args"]) == 1:
                return some(self.eval(e["args"][0], env))
            if "call:" + "::".join(f["path"][-2:]) in self.hooks:
                return self.hooks["call:" + "::".join(f["path"][-2:])](self, None, [self.eval(a, env) for a in e["args"]], e, env)
            if name in ("min", "max") and len(e["args"]) == 2 and (len(f["path"]) == 1 or f["path"][-2] == "cmp"):
                a_, b_ = self.eval(e["args"][0], env), self.eval(e["args"][1], env)
                if isinstance(a_, int) and isinstance(b_, int) and not isinstance(a_, bool) and not isinstance(b_, bool):
                    return min(a_, b_) if name == "min" else max(a_, b_)
                raise Unknown("min/max of non-int")
            if name == "Ok" and len(e["args"]) == 1:
                return ok(self.eval(e["args"][0], env))
            if name == "Err" and len(e["args"]) == 1:
                return err(self.eval_opaque(e["args"][0], env))
            if len(f["path"]) >= 2 and name[:1].isupper() and f["path"][-2][:1].isupper():
                if f["path"][-2] in self.opaque_types:
                    return EnumVal(name, ())
                return EnumVal(name, [self.eval(a, env) for a in e["args"]])
        raise Unknown("call %s (line %s)" % (f.get("s", "?"), e.get("l")))

    def eval_opaque(self, e, env):
        """error payloads and messages are irrelevant: evaluate if possible, else a token"""
        try:
            return self.eval(e, env)
        except Unknown:
            return "<opaque>"

    def e_try(self, e, env):
        v = self.eval(e["e"], env)
        if isinstance(v, tuple) and v and v[0] == "ok":
            return v[1]
        if isinstance(v, tuple) and v and v[0] == "err":
            raise Return(v)
        if is_some(v):
            return v[1]
        if v is None:
            raise Return(None)
        raise Unknown("? on %r" % (v,))

    def e_cast(self, e, env):
        v = self.eval(e["e"], env)
        ty_ = e["ty"]["s"].replace(" ", "")
        if ty_ in ("f64", "f32") and isinstance(v, (int, float)) and not isinstance(v, bool):
            return float(v)
        if ty_.startswith("*const") or ty_.startswith("*mut"):
            return v  # the address of a reference: identity of the referent
        if isinstance(v, bool) or not isinstance(v, int):
            raise Unknown("cast of non-int")
        if ty_ in ("usize", "u32", "u64", "u16", "u8"):
            if v < 0:
                raise Panic("negative-to-unsigned-cast", e.get("l"))  # wraps around: always a logic error here
            return int(v) % (1 << {"usize": 64, "u64": 64, "u32": 32, "u16": 16, "u8": 8}[ty_])  # `as` truncates
        if ty_ in ("isize", "i32", "i64", "i16", "i8"):
            return SInt(v)
        return v

    def e_mcall(self, e, env):
        m = e["method"]
        if m in self.hooks:
            recv = self.eval(e["recv"], env)
            args = [self.eval(a, env) for a in e["args"]]
            r = self.hooks[m](self, recv, args, e, env)
            if r is not NotImplemented:
                return r
        recv = self.eval(e["recv"], env)
        if isinstance(recv, Interval) and m in ("begin", "end") and not e["args"]:
            return recv[m]
        if m in ("is_ok", "is_err") and isinstance(recv, tuple) and recv and recv[0] in ("ok", "err"):
            return (recv[0] == "ok") == (m == "is_ok")
        if m == "is_none" and (recv is None or is_some(recv)):
            return recv is None
        if m == "is_some" and (recv is None or is_some(recv)):
            return recv is not None
        if m == "unwrap" and (recv is None or is_some(recv)):
            if recv is None:
                raise Panic("unwrap-on-none", e.get("l"))
            return recv[1]
        if isinstance(recv, list):
            if m == "iter":
                return recv
            if m == "is_empty":
                return len(recv) == 0
            if m == "len":
                return len(recv)
            if m == "push" and len(e["args"]) == 1:
                recv.append(self.eval(e["args"][0], env))
                return ()
            if m == "sum" and not e["args"] and all(isinstance(x, int) and not isinstance(x, bool) for x in recv):
                t_ = sum(int(x) for x in recv)
                return SInt(t_) if any(isinstance(x, SInt) for x in recv) else t_
            if m in ("take", "skip") and len(e["args"]) == 1:
                n_ = self.eval(e["args"][0], env)
                if isinstance(n_, int) and not isinstance(n_, bool):
                    return recv[:n_] if m == "take" else recv[n_:]
            if m == "rev" and not e["args"]:
                return list(reversed(recv))
            if m in ("any", "all") and len(e["args"]) == 1 and e["args"][0].get("k") == "closure":
                clo = e["args"][0]
                if len(clo["inputs"]) != 1:
                    raise Unknown("closure parameter pattern")
                for x_ in recv:
                    b_ = {}
                    if not match_pat(clo["inputs"][0], x_, b_):
                        raise Unknown("closure parameter pattern")
                    env2 = dict(env)
                    env2.update(b_)
                    v_ = self.eval(clo["body"], env2)
                    if not isinstance(v_, bool):
                        raise Unknown("non-boolean predicate")
                    if v_ == (m == "any"):
                        return m == "any"
                return m == "all"
        if m in ("clone", "copied", "as_ref", "to_owned", "deref"):
            return recv
        if isinstance(recv, str) and not e["args"]:
            if m in ("trim", "trim_start", "trim_end"):
                return {"trim": recv.strip(), "trim_start": recv.lstrip(), "trim_end": recv.rstrip()}[m]
            if m == "len":
                return len(recv.encode("utf8"))
            if m == "is_empty":
                return recv == ""
            if m in ("as_str", "to_string"):
                return recv
        if isinstance(recv, str) and m in ("starts_with", "ends_with") and len(e["args"]) == 1:
            a_ = self.eval(e["args"][0], env)
            if isinstance(a_, str):
                return recv.startswith(a_) if m == "starts_with" else recv.endswith(a_)
        if m == "abs" and isinstance(recv, int) and not isinstance(recv, bool):
            if int(recv) == -(1 << 63):
                raise Panic("abs-overflow", e.get("l"))   # |isize::MIN| does not exist (overflow checks on)
            return SInt(abs(int(recv)))
        if m == "unsigned_abs" and isinstance(recv, int) and not isinstance(recv, bool):
            return abs(int(recv))
        if m in ("checked_sub", "checked_add") and len(e["args"]) == 1 and isinstance(recv, int) and not isinstance(recv, bool):
            o_ = self.eval(e["args"][0], env)
            if isinstance(o_, int) and not isinstance(o_, bool):
                v_ = int(recv) - int(o_) if m == "checked_sub" else int(recv) + int(o_)
                if isinstance(recv, SInt) or isinstance(o_, SInt):
                    return some(SInt(v_)) if -(1 << 63) <= v_ < (1 << 63) else None
                return some(v_) if 0 <= v_ < (1 << 64) else None
        if m == "map" and len(e["args"]) == 1 and (recv is None or is_some(recv)) and e["args"][0].get("k") == "closure":
            if recv is None:
                return None
            clo = e["args"][0]
            b_ = {}
            if len(clo["inputs"]) != 1 or not match_pat(clo["inputs"][0], recv[1], b_):
                raise Unknown("closure parameter pattern")
            env2 = dict(env)
            env2.update(b_)
            return some(self.eval(clo["body"], env2))
        if m == "saturating_sub" and len(e["args"]) == 1 and isinstance(recv, int) and not isinstance(recv, bool):
            o_ = self.eval(e["args"][0], env)
            if isinstance(o_, int) and not isinstance(o_, bool):
                return max(0, int(recv) - int(o_))
        if isinstance(recv, StructVal) and not e["args"] and m in recv:
            return recv[m]  # trivial getter
        if "*" in self.hooks:
            # last resort of a model: e.g. follow a call into another method of the same extracted type
            r_ = self.hooks["*"](self, recv, [self.eval(a, env) for a in e["args"]], e, env)
            if r_ is not NotImplemented:
                return r_
        raise Unknown("method %s on %s (line %s)" % (m, type(recv).__name__, e.get("l")))

    def e_structlit(self, e, env):
        name = e["path"][-1]
        if name in self.opvariants:
            fields = {}
            for f in e["fields"]:
                fields[f["name"]] = self.eval(f["e"], env)
            if set(fields) != set(self.opvariants[name]):
                raise Unknown("struct literal %s does not list all fields" % name)
            return OpVal(name, fields)
        fields = {}
        for f in e["fields"]:
            fields[f["name"]] = self.eval(f["e"], env)
        if e.get("rest") is not None:
            base = self.eval(e["rest"], env)
            if isinstance(base, dict):
                for k_, v_ in base.items():
                    fields.setdefault(k_, v_)
        if name == "TextSelection":
            iv = Interval()
            iv.update(fields)
            return iv
        return StructVal(name, fields)

    def e_closure(self, e, env):
        return ("closure", e)

    def e_macro(self, e, env):
        if ("macro:" + e["name"]) in self.hooks:
            return self.hooks["macro:" + e["name"]](self, e, env)
        if e["name"] in ("unreachable", "todo", "unimplemented", "panic"):
            raise Panic(e["name"] + "!", e.get("l"))
        if e["name"] == "matches" and e.get("pat") is not None and e.get("args"):
            v = self.eval(e["args"][0], env)
            b = {}
            if not match_pat(e["pat"], v, b):
                return False
            if e.get("guard") is not None:
                env2 = dict(env)
                env2.update(b)
                return self._bool(self.eval(e["guard"], env2))
            return True
        raise Unknown("macro %s!" % e["name"])

    # control flow
    def e_if(self, e, env):
        c = e["cond"]
        if c.get("k") == "letexpr":
            v = self.eval_scrutinee(c["e"], env)
            b = {}
            if match_pat(c["pat"], v, b):
                env2 = dict(env)
                env2.update(b)
                return self.block(e["then"], env2, env)
            if e.get("else") is None:
                return ()
            return self.eval(e["else"], env)
        cv = self._bool(self.eval(c, env))
        if cv:
            return self.block(e["then"], dict(env), env)
        if e.get("else") is None:
            return ()
        return self.eval(e["else"], env)

    def eval_scrutinee(self, e, env):
        return self.eval(e, env)

    def e_blockexpr(self, e, env):
        return self.block(e["block"], dict(env), env)

    def e_block(self, e, env):
        return self.block(e, dict(env), env)

    def e_match(self, e, env):
        v = self.eval(e["e"], env)
        for a in e["arms"]:
            b = {}
            if match_pat(a["pat"], v, b):
                env2 = dict(env)
                env2.update(b)
                if a.get("guard") is not None:
                    if not self._bool(self.eval(a["guard"], env2)):
                        continue
                return self.eval(a["body"], env2)
        raise Unknown("no match arm")

    def e_return(self, e, env):
        raise Return(self.eval(e["e"], env) if e.get("e") else ())

    def e_assign(self, e, env):
        l = e["left"]
        if l.get("k") == "path" and len(l["path"]) == 1 and l["path"][0] in env:
            nv_ = self.eval(e["right"], env)
            if isinstance(env[l["path"][0]], SInt) and isinstance(nv_, int) and not isinstance(nv_, bool):
                nv_ = SInt(nv_)  # the variable keeps its (signed) type
            env["__assign__"](l["path"][0], nv_)
            return ()
        if l.get("k") == "field":
            b = self.eval(l["base"], env)
            if isinstance(b, dict) and l["member"] in b:
                b[l["member"]] = self.eval(e["right"], env)
                return ()
        if l.get("k") == "unary" and l["op"] == "*":
            c = self.eval(l["e"], env)
            if isinstance(c, StructVal) and c.tyname == "Cell":
                c["v"] = self.eval(e["right"], env)
                return ()
        raise Unknown("assignment target")

    def e_loop(self, e, env):
        n = 0
        while True:
            n += 1
            if n > 10000:
                raise Unknown("loop bound")
            try:
                self.block(e["body"], dict(env), env)
            except Break as b:
                return b.v
            except Continue:
                continue

    def e_while(self, e, env):
        n = 0
        while True:
            n += 1
            if n > 10000:
                raise Unknown("loop bound")
            if not self._bool(self.eval(e["cond"], env)):
                return ()
            try:
                self.block(e["body"], dict(env), env)
            except Break:
                return ()
            except Continue:
                continue

    def e_break(self, e, env):
        raise Break(self.eval(e["e"], env) if e.get("e") else ())

    def e_continue(self, e, env):
        raise Continue()

    def e_range(self, e, env):
        a = self.eval(e["start"], env) if e.get("start") else None
        b = self.eval(e["end"], env) if e.get("end") else None
        return ("range", a, b, bool(e.get("inclusive")))

    def e_index(self, e, env):
        b = self.eval(e["base"], env)
        i = self.eval(e["index"], env)
        if isinstance(b, list):
            if isinstance(i, tuple) and i and i[0] == "range":
                lo = 0 if i[1] is None else i[1]
                hi = len(b) if i[2] is None else (i[2] + 1 if i[3] else i[2])
                if lo > hi or hi > len(b) or lo < 0:
                    raise Panic("slice-index-out-of-range", e.get("l"))
                return b[lo:hi]
            if isinstance(i, int) and not isinstance(i, bool):
                if i < 0 or i >= len(b):
                    raise Panic("index-out-of-bounds", e.get("l"))
                return b[i]
        if isinstance(b, str) and isinstance(i, tuple) and i and i[0] == "range":
            raw = b.encode("utf8")
            lo = 0 if i[1] is None else i[1]
            hi = len(raw) if i[2] is None else (i[2] + 1 if i[3] else i[2])
            if lo > hi or hi > len(raw) or lo < 0:
                raise Panic("slice-index-out-of-range", e.get("l"))
            try:
                return raw[lo:hi].decode("utf8")
            except UnicodeDecodeError:
                raise Panic("slice-not-on-char-boundary", e.get("l"))
        raise Unknown("index expression")

    def e_for(self, e, env):
        seq = self.eval(e["iter"], env)
        if isinstance(seq, tuple) and seq and seq[0] == "range" and isinstance(seq[1], int) and isinstance(seq[2], int):
            seq = list(range(seq[1], seq[2] + (1 if seq[3] else 0)))
        if not isinstance(seq, list):
            raise Unknown("for over non-sequence")
        for x in list(seq):
            b = {}
            if not match_pat(e["pat"], x, b):
                raise Unknown("for pattern")
            env2 = dict(env)
            env2.update(b)
            try:
                self.block(e["body"], env2, env)
            except Break:
                break
            except Continue:
                continue
        return ()

    def block(self, b, env, outer):
        """evaluate a block in env (a fresh copy); assignments to names of enclosing
        scopes are propagated through __assign__"""
        parent_assign = outer.get("__assign__")
        local_names = set()

        def assign(name, val):
            env[name] = val
            if name not in local_names and parent_assign:
                parent_assign(name, val)

        env["__assign__"] = assign
        result = ()
        stmts = b["stmts"]
        for i, s in enumerate(stmts):
            k = s["k"]
            if k == "let":
                if s.get("init") is None:
                    raise Unknown("let without init")
                v = self.eval(s["init"], env)
                if s["pat"].get("p") == "typed" and isinstance(v, int) and not isinstance(v, bool):
                    ty_ = re.sub(r"\s+", "", (s["pat"].get("ty") or {}).get("s", "") if isinstance(s["pat"].get("ty"), dict) else "")
                    if ty_ in ("isize", "i64", "i32", "i16", "i8"):
                        v = SInt(v)
                bnd = {}
                if not match_pat(s["pat"], v, bnd):
                    if s.get("else") is not None:
                        self.eval(s["else"], env)
                    raise Unknown("refutable let")
                env.update(bnd)
                local_names.update(bnd)
            elif k == "exprstmt":
                v = self.eval(s["e"], env)
                if i == len(stmts) - 1 and not s.get("semi"):
                    result = v
            else:
                raise Unknown("statement kind %s" % k)
        return result

    def run_body(self, body, env):
        try:
            return self.block(body, dict(env), {})
        except Return as r:
            return r.v
