"""C09 print -> parse round trip of constraints, decided by evaluating the extracted syntax trees of
Constraint::to_string and Constraint::parse (and everything they call in the crate) on a finite grid of
constraint values.  Nothing of /repo is executed: lib/formula.py interprets the syntax trees; the only modelled
library semantics are string primitives (split / trim / slicing / starts_with / char_indices / format!).

The grid is enumerated from the `Constraint` enum itself (variants and field types read from the syntax tree), so a
new variant or a new qualifier value enlarges it; variants that carry run-time handles (Annotations, Data, Keys,
Resources, TextSelections) are printed from store content and are excluded (stated in not_decided)."""
import re
from formula import Evaluator, Unknown, Panic, EnumVal, StructVal, OpVal, SInt, ok, err, some, is_some, match_pat
from synq import walk, unparse, strip

QFILE = "src/api/query.rs"
WS = " \n\r\t"


class Model:
    def __init__(self, syn):
        self.syn = syn
        self.missing = []
        g = lambda **kw: self._fn(**kw)
        self.f = {
            "parse": g(name="parse", self_ty="Constraint", file=QFILE),
            "to_string": g(name="to_string", self_ty="Constraint", file=QFILE),
            "parse_offset": g(name="parse_offset", self_ty="Constraint", file=QFILE),
            "closed": g(name="closed", self_ty="Constraint", file=QFILE),
            "get_arg": g(name="get_arg", self_ty=None, file=QFILE),
            "get_arg_type": g(name="get_arg_type", self_ty=None, file=QFILE),
            "parse_qualifiers": g(name="parse_qualifiers", self_ty=None, file=QFILE),
            "parse_text_qualifiers": g(name="parse_text_qualifiers", self_ty=None, file=QFILE),
            "parse_dataoperator": g(name="parse_dataoperator", self_ty=None, file=QFILE),
            "parse_attributes": g(name="parse_attributes", self_ty="Query", file=QFILE),
            "selq_as_str": g(name="as_str", self_ty="SelectionQualifier", file=QFILE),
            "tso_as_str": g(name="as_str", self_ty="TextSelectionOperator", file="src/textselection.rs"),
            "dop_to_string": g(name="to_string", self_ty="DataOperator", file="src/datavalue.rs"),
        }
        self.opt = {
            "parse_int_arg": self._fn(name="parse_int_arg", self_ty=None, file=QFILE, optional=True),
            "parse_float_arg": self._fn(name="parse_float_arg", self_ty=None, file=QFILE, optional=True),
        }
        # Cursor: Display and TryFrom<&str>
        self.cursor_from = [f for f in syn.fns if f.name == "try_from" and "Cursor" in (f.self_ty or "") and "&str" in (f.trait or "").replace(" ", "") and f.body is not None]
        self.cursor_fmt = [f for f in syn.fns if f.name == "fmt" and (f.self_ty or "") == "Cursor" and "Display" in (f.trait or "") and f.body is not None]
        self.cursor_from_isize = [f for f in syn.fns if f.name == "try_from" and "Cursor" in (f.self_ty or "") and "isize" in (f.trait or "") and f.body is not None]
        self.cursor_from_usize = [f for f in syn.fns if f.name == "from" and "Cursor" in (f.self_ty or "") and "usize" in (f.trait or "") and f.body is not None]
        if len(self.cursor_from_isize) != 1 or len(self.cursor_from_usize) != 1:
            self.missing.append("TryFrom<isize> / From<usize> for Cursor")
        if len(self.cursor_from) != 1:
            self.missing.append("TryFrom<&str> for Cursor")
        if len(self.cursor_fmt) != 1:
            self.missing.append("Display for Cursor")
        # TextSelectionOperator constructors without parameters
        self.tso_ctor = {}
        for f in syn.fns:
            if (f.self_ty or "") == "TextSelectionOperator" and f.file == "src/textselection.rs" and f.body is not None and not f.sig["inputs"] and f.trait is None:
                self.tso_ctor[f.name] = f
        self.enums = syn.enums
        for need in ("Constraint", "SelectionQualifier", "TextSelectionOperator", "DataOperator", "AnnotationDepth", "TextMode", "ArgType"):
            if need not in syn.enums:
                self.missing.append("enum " + need)
        self.consts = {}
        self.steps = 0

    def _fn(self, name, self_ty, file, optional=False):
        c = [f for f in self.syn.fns if f.name == name and f.file == file and f.body is not None and f.trait is None and
             ((self_ty is None and f.self_ty is None) or (self_ty is not None and (f.self_ty or "").split("<")[0] == self_ty))]
        if len(c) != 1:
            if not optional:
                self.missing.append("%s%s (%s): %d candidates" % ((self_ty + "::") if self_ty else "", name, file, len(c)))
            return None
        return c[0]

    def functions(self):
        out = [f for f in self.f.values() if f is not None] + [f for f in self.opt.values() if f is not None] + self.cursor_from + self.cursor_from_isize + self.cursor_from_usize + self.cursor_fmt + list(self.tso_ctor.values())
        return out

    # ------------------------------------------------------------------ evaluator wiring
    def variants_of(self, enum):
        return [v["name"] for v in self.enums[enum]["variants"]]

    def evaluator(self):
        hooks = {}
        M = self
        self.globals = {}
        for nm, c in self.syn.consts.items():
            if c.get("_file") == QFILE and c.get("e") is not None:
                try:
                    self.globals[nm] = Evaluator(hooks={}).eval(c["e"], {})
                except (Unknown, Panic):
                    pass

        def params_of(fn):
            return [p["pat"].get("name") for p in fn.sig["inputs"] if p.get("pat") and p["pat"].get("name") != "self"]

        def call(fn, args, selfv=None):
            env = dict(zip(params_of(fn), args))
            if selfv is not None:
                env["self"] = selfv
            ev = Evaluator(hooks=hooks_of(fn))
            ev.opaque_types = {"StamError"}
            ev.globals = M.globals
            ev.steps = 0
            r = ev.run_body(fn.body, env)
            M.steps += ev.steps
            return r
        self.call = call

        # `Self::f(..)` means the f of the type the running function belongs to: one hook table per type of the file
        by_type = {}
        for f in self.syn.fns:
            if f.file == QFILE and f.body is not None and f.trait is None and f.self_ty:
                by_type.setdefault(f.self_ty.split("<")[0], {}).setdefault(f.name, f)
        self.by_type = by_type
        tables = {}

        def hooks_of(fn):
            t = (fn.self_ty or "").split("<")[0] if fn.file == QFILE else ""
            if t not in by_type:
                return hooks
            if t not in tables:
                tb = dict(hooks)
                for nm, f2 in by_type[t].items():
                    tb["call:Self::" + nm] = mk(f2)
                tables[t] = tb
            return tables[t]

        def mk(fn):
            return lambda ev, recv, args, node, env: call(fn, args)
        for key, nm in (("call:get_arg", "get_arg"), ("call:get_arg_type", "get_arg_type"), ("call:parse_qualifiers", "parse_qualifiers"), ("call:parse_text_qualifiers", "parse_text_qualifiers"),
                        ("call:parse_dataoperator", "parse_dataoperator")):
            hooks[key] = mk(self.f[nm])
        for t, fs in by_type.items():
            for nm, f2 in fs.items():
                hooks["call:%s::%s" % (t, nm)] = mk(f2)
        for nm, fn in self.opt.items():
            if fn is not None:
                want = "f64" if "f64" in re.sub(r"\s+", "", (fn.sig.get("output") or {}).get("s", "")) else "isize"

                def mk2(fn, want):
                    def h(ev, recv, args, node, env):
                        env2 = dict(zip(params_of(fn), args))
                        ev2 = Evaluator(hooks=dict(hooks, parse=lambda e_, r_, a_, n_, v_: h_parse(e_, r_, a_, dict(n_, turbofish=(n_.get("turbofish") or "::<%s>" % want)), v_)))
                        return ev2.run_body(fn.body, env2)
                    return h
                hooks["call:" + nm] = mk2(fn, want)
        for nm, fn in self.tso_ctor.items():
            hooks["call:TextSelectionOperator::" + nm] = mk(fn)
        for f2 in self.syn.fns:
            if f2.file == self.f["dop_to_string"].file and f2.self_ty is None and f2.trait is None and f2.body is not None and ("call:" + f2.name) not in hooks:
                hooks["call:" + f2.name] = mk(f2)
        hooks["contains"] = lambda ev, recv, args, node, env: (args[0] in recv) if isinstance(recv, str) and len(args) == 1 and isinstance(args[0], str) else NotImplemented
        hooks["is_finite"] = lambda ev, recv, args, node, env: (recv == recv and recv not in (float("inf"), float("-inf"))) if isinstance(recv, float) else NotImplemented
        hooks["call:Cursor::try_from"] = lambda ev, recv, args, node, env: call(self.cursor_from[0] if is_str(args[0]) else self.cursor_from_isize[0], args)
        hooks["call:Cursor::from"] = lambda ev, recv, args, node, env: call(self.cursor_from_usize[0], args)
        def h_radix(signed):
            def h(ev, recv, args, node, env):
                s_, radix = args
                if not (is_str(s_) and radix == 10):
                    raise Unknown("from_str_radix")
                if not re.fullmatch(r"[+-]?\d+" if signed else r"\+?\d+", s_) or len(s_.lstrip("+-")) > 18:
                    return err("parse")
                return ok(SInt(int(s_)) if signed else int(s_))
            return h
        hooks["call:isize::from_str_radix"] = h_radix(True)
        hooks["call:usize::from_str_radix"] = h_radix(False)
        hooks["call:Regex::new"] = lambda ev, recv, args, node, env: ok(StructVal("Regex", {"src": args[0]}))
        hooks["call:Cow::Borrowed"] = lambda ev, recv, args, node, env: args[0]
        hooks["call:Cow::Owned"] = lambda ev, recv, args, node, env: args[0]
        hooks["call:Box::new"] = lambda ev, recv, args, node, env: args[0]
        hooks["call:String::new"] = lambda ev, recv, args, node, env: ""
        hooks["call:Vec::new"] = lambda ev, recv, args, node, env: []

        def h_rfc(ev, recv, args, node, env):
            s = args[0]
            m = re.fullmatch(r"T(\d+)", s) if isinstance(s, str) else None
            return ok(StructVal("DateTime", {"t": int(m.group(1))})) if m else err("parse")
        hooks["call:DateTime::parse_from_rfc3339"] = h_rfc
        hooks["to_rfc3339"] = lambda ev, recv, args, node, env: "T%d" % recv["t"] if isinstance(recv, StructVal) and recv.tyname == "DateTime" else NotImplemented

        # ---- strings
        def is_str(x):
            return isinstance(x, str)

        def seps_of(a):
            if isinstance(a, (list, tuple)) and a and all(isinstance(c, str) and len(c) == 1 for c in a):
                return "".join(a)
            if isinstance(a, str) and len(a) == 1:
                return a
            return None

        def h_split(ev, recv, args, node, env):
            if is_str(recv) and len(args) == 1:
                cs = seps_of(args[0])
                if cs is not None:
                    return re.split("[" + re.escape(cs) + "]", recv)
                if isinstance(args[0], str):
                    return recv.split(args[0])
            return NotImplemented
        hooks["split"] = h_split

        def h_find(ev, recv, args, node, env):
            if is_str(recv) and len(args) == 1:
                cs = seps_of(args[0])
                if cs is not None and not (isinstance(args[0], str) and len(args[0]) > 1):
                    raw = recv
                    for i, c in enumerate(raw):
                        if c in cs:
                            return some(len(raw[:i].encode("utf8")))
                    return None
                if isinstance(args[0], str):
                    i = recv.find(args[0])
                    return some(len(recv[:i].encode("utf8"))) if i >= 0 else None
            return NotImplemented
        hooks["find"] = h_find

        def h_next(ev, recv, args, node, env):
            if isinstance(recv, list) and not args:
                return some(recv[0]) if recv else None
            return NotImplemented
        hooks["next"] = h_next
        hooks["nth"] = lambda ev, recv, args, node, env: (some(recv[args[0]]) if args[0] < len(recv) else None) if isinstance(recv, list) and len(args) == 1 and isinstance(args[0], int) else NotImplemented
        hooks["chars"] = lambda ev, recv, args, node, env: list(recv) if is_str(recv) else NotImplemented

        def h_char_indices(ev, recv, args, node, env):
            if not is_str(recv):
                return NotImplemented
            out, pos = [], 0
            for c in recv:
                out.append((pos, c))
                pos += len(c.encode("utf8"))
            return out
        hooks["char_indices"] = h_char_indices
        hooks["enumerate"] = lambda ev, recv, args, node, env: [(i, x) for i, x in enumerate(recv)] if isinstance(recv, list) else NotImplemented
        hooks["iter"] = lambda ev, recv, args, node, env: recv if isinstance(recv, list) else NotImplemented
        hooks["is_ascii_digit"] = lambda ev, recv, args, node, env: (len(recv) == 1 and recv in "0123456789") if is_str(recv) else NotImplemented
        hooks["to_ascii_lowercase"] = lambda ev, recv, args, node, env: recv.lower() if is_str(recv) else NotImplemented
        hooks["to_lowercase"] = hooks["to_ascii_lowercase"]
        hooks["eq_ignore_ascii_case"] = lambda ev, recv, args, node, env: recv.lower() == args[0].lower() if is_str(recv) and is_str(args[0]) else NotImplemented
        hooks["trim_end_matches"] = lambda ev, recv, args, node, env: recv.rstrip(args[0]) if is_str(recv) and is_str(args[0]) and len(args[0]) == 1 else NotImplemented
        hooks["trim_start_matches"] = lambda ev, recv, args, node, env: recv.lstrip(args[0]) if is_str(recv) and is_str(args[0]) and len(args[0]) == 1 else NotImplemented
        hooks["into"] = lambda ev, recv, args, node, env: recv
        hooks["deref"] = lambda ev, recv, args, node, env: recv
        hooks["map_err"] = lambda ev, recv, args, node, env: recv
        hooks["collect"] = lambda ev, recv, args, node, env: recv if isinstance(recv, list) else NotImplemented

        def h_or_else(ev, recv, args, node, env):
            if isinstance(recv, tuple) and recv and recv[0] == "ok":
                return recv
            if isinstance(recv, tuple) and recv and recv[0] == "err":
                return err("<mapped>")
            return NotImplemented
        hooks["or_else"] = h_or_else

        def h_unwrap_or(ev, recv, args, node, env):
            if recv is None:
                return args[0]
            if is_some(recv):
                return recv[1]
            return NotImplemented
        hooks["unwrap_or"] = h_unwrap_or

        def h_starts(ev, recv, args, node, env):
            if is_str(recv) and len(args) == 1:
                if is_str(args[0]):
                    return recv.startswith(args[0])
                cs = seps_of(args[0])
                if cs is not None:
                    return bool(recv) and recv[0] in cs
            return NotImplemented
        hooks["starts_with"] = h_starts

        def h_parse(ev, recv, args, node, env):
            ty = re.sub(r"[\s:<>]", "", node.get("turbofish") or "")
            if not is_str(recv):
                return NotImplemented
            if ty in ("isize", "i64", "usize"):
                if not re.fullmatch(r"[+-]?\d+", recv) or (ty == "usize" and recv.startswith("-")) or len(recv.lstrip("+-")) > 18:
                    return err("parse")
                return ok(SInt(int(recv)) if ty != "usize" else int(recv))
            if ty in ("f64", "f32"):
                if not re.fullmatch(r"[+-]?(\d+(\.\d*)?|\.\d+)([eE][+-]?\d+)?|[+-]?(inf|infinity|nan)", recv, re.I):
                    return err("parse")
                return ok(float(recv))
            raise Unknown("parse::<%s>" % ty)
        hooks["parse"] = h_parse

        def h_expect(ev, recv, args, node, env):
            if isinstance(recv, tuple) and recv and recv[0] == "ok":
                return recv[1]
            if isinstance(recv, tuple) and recv and recv[0] == "err":
                raise Panic("expect-on-err", node.get("l"))
            if is_some(recv):
                return recv[1]
            if recv is None:
                raise Panic("expect-on-none", node.get("l"))
            return NotImplemented
        hooks["expect"] = h_expect
        hooks["unwrap"] = h_expect

        def h_map(ev, recv, args, node, env):
            if args and isinstance(args[0], tuple) and args[0] and args[0][0] == "closure":
                clo = args[0][1]

                def ap(x):
                    b_ = {}
                    if len(clo["inputs"]) != 1 or not match_pat(clo["inputs"][0], x, b_):
                        raise Unknown("closure parameter pattern")
                    env2 = dict(env)
                    env2.update(b_)
                    return ev.eval(clo["body"], env2)
                if isinstance(recv, list):
                    return [ap(x) for x in recv]
                if recv is None:
                    return None
                if is_some(recv):
                    return some(ap(recv[1]))
            return NotImplemented
        hooks["map"] = h_map

        def h_push(ev, recv, args, node, env):
            if is_str(recv) and len(args) == 1 and is_str(args[0]):
                tgt = strip(node["recv"])
                if tgt.get("k") == "path" and len(tgt["path"]) == 1 and tgt["path"][0] in env:
                    env["__assign__"](tgt["path"][0], recv + args[0])
                    return ()
            return NotImplemented
        hooks["push"] = h_push
        hooks["push_str"] = h_push

        # ---- Display / Debug of f64 as Rust prints them
        def f64_plain(v):
            from decimal import Decimal
            d = format(Decimal(repr(float(v))), "f")
            if "." in d:
                d = d.rstrip("0").rstrip(".") if d.rstrip("0").rstrip(".") not in ("", "-") else "0"
            return d

        def f64_display(v):
            if v != v:
                return "NaN"
            if v in (float("inf"), float("-inf")):
                return "inf" if v > 0 else "-inf"
            return f64_plain(v)           # Display never uses an exponent

        def f64_debug(v):
            if v != v or v in (float("inf"), float("-inf")):
                return f64_display(v)
            a = abs(v)
            if v == 0 or 1e-5 <= a < 1e16:
                p_ = f64_plain(v)
                return p_ if "." in p_ else p_ + ".0"
            from decimal import Decimal
            sign, digits, exp = Decimal(repr(float(v))).normalize().as_tuple()
            ds = "".join(str(x) for x in digits)
            e10 = exp + len(ds) - 1
            return ("-" if sign else "") + ds[0] + ("." + ds[1:] if len(ds) > 1 else "") + "e" + str(e10)
        self.f64_display, self.f64_debug = f64_display, f64_debug

        # ---- Display
        def display(v):
            if isinstance(v, bool):
                return "true" if v else "false"
            if isinstance(v, float):
                return f64_display(v)
            if isinstance(v, int):
                return str(int(v))
            if isinstance(v, str):
                return v
            if isinstance(v, EnumVal) and v.name in ("BeginAligned", "EndAligned") and len(v.args) == 1:
                return cursor_display(v)
            if isinstance(v, StructVal) and v.tyname == "Regex":
                return v["src"]
            raise Unknown("Display of %r" % (v,))
        self.display = display

        def cursor_display(v):
            fn = self.cursor_fmt[0]
            out = []

            def h_write(ev, node, env):
                a = node.get("args") or []
                vals = [ev.eval(x, env) for x in a[1:]]
                out.append(render(vals[0], vals[1:], env, ev))
                return ok(())
            ev = Evaluator(hooks=dict(hooks, **{"macro:write": h_write}))
            ev.run_body(fn.body, {"self": v, "f": "<fmt>"})
            return "".join(out)

        def render(fmt_, vals, env, ev):
            out, i, n, k = [], 0, len(fmt_), 0
            while i < n:
                c = fmt_[i]
                if c == "{":
                    if i + 1 < n and fmt_[i + 1] == "{":
                        out.append("{")
                        i += 2
                        continue
                    j = fmt_.index("}", i)
                    spec = fmt_[i + 1:j]
                    name, _, f_ = spec.partition(":")
                    if name and not name.isdigit():
                        if name not in env:
                            raise Unknown("format! names `%s`" % name)
                        val = env[name]
                    elif name.isdigit():
                        val = vals[int(name)]
                    else:
                        if k >= len(vals):
                            raise Unknown("format! has fewer arguments than placeholders")
                        val = vals[k]
                        k += 1
                    if f_ == "?":
                        if isinstance(val, float):
                            out.append(f64_debug(val))
                        elif isinstance(val, int) and not isinstance(val, bool):
                            out.append(str(int(val)))
                        else:
                            out.append(repr(val))
                    elif f_ == "":
                        out.append(display(val))
                    else:
                        raise Unknown("format spec {:%s}" % f_)
                    i = j + 1
                elif c == "}":
                    out.append("}")
                    i += 2 if i + 1 < n and fmt_[i + 1] == "}" else 1
                else:
                    out.append(c)
                    i += 1
            return "".join(out)

        def h_format(ev, node, env):
            a = node.get("args") or []
            if not a:
                raise Unknown("format! without arguments")
            vals = [ev.eval(x, env) for x in a]
            if not isinstance(vals[0], str):
                raise Unknown("format! template")
            return render(vals[0], vals[1:], env, ev)
        hooks["macro:format"] = h_format

        # ---- method dispatch into the crate
        selq = set(self.variants_of("SelectionQualifier"))
        tso = set(self.variants_of("TextSelectionOperator"))
        dop = set(self.variants_of("DataOperator"))
        cons = set(self.variants_of("Constraint"))

        def h_as_str(ev, recv, args, node, env):
            if is_str(recv):
                return recv
            if isinstance(recv, EnumVal) and recv.name in selq and not recv.args:
                return call(self.f["selq_as_str"], [], selfv=recv)
            if isinstance(recv, (StructVal, OpVal)) and getattr(recv, "tyname", getattr(recv, "variant", None)) in tso:
                return call(self.f["tso_as_str"], [], selfv=recv)
            if isinstance(recv, StructVal) and recv.tyname == "Regex":
                return recv["src"]
            if isinstance(recv, EnumVal) and not recv.args:
                # another enum of the file with an as_str of its own (QueryType, QueryQualifier)
                for t, fs in sorted(by_type.items()):
                    if "as_str" in fs and t in self.enums and recv.name in self.variants_of(t):
                        return call(fs["as_str"], [], selfv=recv)
            return NotImplemented
        hooks["as_str"] = h_as_str

        def h_to_string(ev, recv, args, node, env):
            if args:
                return NotImplemented
            if is_str(recv):
                return recv
            if isinstance(recv, bool):
                return NotImplemented
            if isinstance(recv, int):
                return str(int(recv))
            nm = recv.name if isinstance(recv, EnumVal) else recv.tyname if isinstance(recv, StructVal) else None
            if nm in cons and getattr(recv, "_is_constraint", False):
                return call(self.f["to_string"], [], selfv=recv)
            if nm in dop:
                return call(self.f["dop_to_string"], [], selfv=recv)
            if nm in cons:
                return call(self.f["to_string"], [], selfv=recv)
            return NotImplemented
        hooks["to_string"] = h_to_string
        hooks["len"] = lambda ev, recv, args, node, env: len(recv) if isinstance(recv, list) else (len(recv.encode("utf8")) if is_str(recv) else NotImplemented)
        hooks["zip"] = lambda ev, recv, args, node, env: [(a, b) for a, b in zip(recv, args[0])] if isinstance(recv, list) and len(args) == 1 and isinstance(args[0], list) else NotImplemented
        hooks["call:HashMap::new"] = lambda ev, recv, args, node, env: StructVal("HashMap", {})
        hooks["trim"] = lambda ev, recv, args, node, env: recv.strip(WS) if is_str(recv) and not args else NotImplemented

        def h_any(ev, recv, args, node, env):
            # a method of Query called on a Query value: run its extracted body
            if isinstance(recv, StructVal) and recv.tyname in ("Query", "Self") and "querytype" in recv:
                fn = by_type.get("Query", {}).get(node["method"])
                if fn is not None and fn.body is not None:
                    return call(fn, args, selfv=recv)
            return NotImplemented
        hooks["*"] = h_any
        prev_to_string = hooks["to_string"]

        def h_to_string2(ev, recv, args, node, env):
            if isinstance(recv, StructVal) and recv.tyname in ("Query", "Self") and "querytype" in recv and not args:
                return call(by_type["Query"]["to_string"], [], selfv=recv)
            return prev_to_string(ev, recv, args, node, env)
        hooks["to_string"] = h_to_string2
        self.hooks = hooks
        return hooks

    # ------------------------------------------------------------------ the two directions
    def print_(self, c):
        return self.call(self.f["to_string"], [], selfv=c)

    def parse_(self, text):
        return self.call(self.f["parse"], [text])


def mark(c):
    c._is_constraint = True
    return c


def grid(model):
    """constraint values, enumerated from the enum: one per variant and qualifier / depth / offset / operator shape"""
    E = model.enums
    quals = [EnumVal(v) for v in model.variants_of("SelectionQualifier")]
    depths = [EnumVal(v) for v in model.variants_of("AnnotationDepth") if not [x for x in E["AnnotationDepth"]["variants"] if x["name"] == v][0].get("fields")]
    modes = [EnumVal(v) for v in model.variants_of("TextMode")]
    B, Eo = (lambda n: EnumVal("BeginAligned", [n])), (lambda n: EnumVal("EndAligned", [SInt(n)]))
    offsets = [None, some(StructVal("Offset", {"begin": B(0), "end": Eo(0)})), some(StructVal("Offset", {"begin": B(2), "end": B(5)})), some(StructVal("Offset", {"begin": Eo(-3), "end": Eo(-1)}))]
    dt = StructVal("DateTime", {"t": 10})
    dops = [EnumVal("Any"), EnumVal("Null"), EnumVal("True"), EnumVal("False"), EnumVal("Equals", ["word"]), EnumVal("Equals", ["two words"]), EnumVal("EqualsInt", [SInt(3)]), EnumVal("EqualsInt", [SInt(-7)]),
            EnumVal("EqualsFloat", [2.5]), EnumVal("GreaterThan", [SInt(3)]), EnumVal("GreaterThanOrEqual", [SInt(3)]), EnumVal("LessThan", [SInt(3)]), EnumVal("LessThanOrEqual", [SInt(3)]),
            EnumVal("GreaterThanFloat", [2.5]), EnumVal("GreaterThanOrEqualFloat", [2.5]), EnumVal("LessThanFloat", [2.5]), EnumVal("LessThanOrEqualFloat", [0.5]),
            EnumVal("ExactDatetime", [dt]), EnumVal("AfterDatetime", [dt]), EnumVal("AtOrAfterDatetime", [dt]), EnumVal("BeforeDatetime", [dt]), EnumVal("AtOrBeforeDatetime", [dt]),
            EnumVal("Not", [EnumVal("Equals", ["word"])]), EnumVal("Not", [EnumVal("EqualsInt", [SInt(3)])]), EnumVal("Not", [EnumVal("Null")]), EnumVal("Not", [EnumVal("True")]), EnumVal("Not", [EnumVal("False")]), EnumVal("Not", [EnumVal("Any")]),
            # strings that spell something else: quotes must keep them strings
            EnumVal("Equals", ["true"]), EnumVal("Equals", ["null"]), EnumVal("Equals", ["any"]), EnumVal("Equals", ["3"]), EnumVal("Equals", ["2.5"]), EnumVal("Equals", ["T10"]), EnumVal("Equals", [""]),
            EnumVal("Not", [EnumVal("Equals", ["false"])]),
            # the negation of a comparison: not the complementary comparison (a string is neither > 3 nor <= 3)
            EnumVal("Not", [EnumVal("GreaterThan", [SInt(3)])]), EnumVal("Not", [EnumVal("LessThanOrEqual", [SInt(3)])]), EnumVal("Not", [EnumVal("GreaterThanOrEqualFloat", [2.5])]), EnumVal("Not", [EnumVal("LessThanFloat", [2.5])]),
            EnumVal("Not", [EnumVal("AfterDatetime", [dt])]),
            # floats with an integral value, strings with the list separator
            EnumVal("Equals", ["O'Brien"]), EnumVal("EqualsFloat", [1.0]), EnumVal("GreaterThanFloat", [3.0]), EnumVal("EqualsFloat", [0.000001]), EnumVal("LessThanFloat", [1.5e20]), EnumVal("GreaterThanOrEqualFloat", [-2.5e-7]), EnumVal("LessThanOrEqualFloat", [-2.0]), EnumVal("Equals", ["a|b"])]
    tsos = []
    for name, fn in sorted(model.tso_ctor.items()):
        try:
            tsos.append((name, model.call(fn, [])))
        except (Unknown, Panic):
            pass
    # the modifiers a programmatic query can set on an operator (toggle_all / toggle_negate / with_limit)
    for name, op in list(tsos):
        if isinstance(op, StructVal) and name in ("embeds", "before"):
            for fld, val in (("all", True), ("negate", True), ("limit", some(3))):
                if fld in op:
                    tsos.append(("%s+%s" % (name, fld), StructVal(op.tyname, dict(op, **{fld: val}))))
    out = []

    def add(kind, c):
        out.append((kind, mark(c)))
    V = dict((v["name"], v) for v in E["Constraint"]["variants"])
    skipped = []
    for name, v in V.items():
        ftys = [re.sub(r"\s+", "", (f.get("ty") or {}).get("s", "")) for f in v.get("fields", [])]
        fnames = [f.get("name") for f in v.get("fields", [])]
        if any("Handles<" in t for t in ftys):
            skipped.append(name)
            continue
        if name == "Union":
            continue
        if name == "Limit":
            for b, e in ((0, 5), (-3, 0), (2, 7), (-5, -2)):
                add(name, StructVal(name, {"begin": SInt(b), "end": SInt(e)}))
            continue
        # generic product over the field types
        doms = []
        for t in ftys:
            if t in ("&'astr", "&str"):
                doms.append(["x", "some id"] + (["?q", "a\\", "NONE", "don't", "it's 'so'"] if name in ("Text", "Id") else []) if name not in ("AnnotationVariable", "DataVariable", "DataSetVariable", "ResourceVariable", "TextVariable", "SubStoreVariable", "KeyVariable", "KeyValueVariable", "TextRelation") else ["x"])
            elif t == "SelectionQualifier":
                doms.append(quals)
            elif t == "AnnotationDepth":
                doms.append(depths)
            elif t == "Option<Offset>":
                doms.append(offsets)
            elif t.startswith("DataOperator"):
                doms.append(dops)
            elif t == "TextMode":
                doms.append(modes)
            elif t == "Regex":
                doms.append([StructVal("Regex", {"src": "a+b"})])
            elif t == "TextSelectionOperator":
                doms.append([x for _, x in tsos])
            elif t in ("Option<&'astr>", "Option<&str>"):
                doms.append([None, some("sub"), some("NONE")])
            else:
                doms = None
                skipped.append("%s (field type %s)" % (name, t))
                break
        if doms is None:
            continue
        import itertools
        for combo in itertools.product(*doms):
            if fnames and all(fn_ and not str(fn_).isdigit() for fn_ in fnames):
                add(name, StructVal(name, dict(zip(fnames, combo))))
            else:
                add(name, EnumVal(name, list(combo)))
    # unions of two printable constraints
    simple = [c for k, c in out if k in ("DataKey", "Text", "Id")][:3]
    if len(simple) >= 2:
        add("Union", EnumVal("Union", [[simple[0], simple[1]]]))
    return out, skipped


# ---------------------------------------------------------------------- the rule
# a printed form that is read back as another constraint of the same meaning (reviewed, one line of reason each)
def normalise(c):
    if isinstance(c, StructVal) and c.tyname == "KeyValue" and c.get("operator") == EnumVal("Any"):
        # `DATA set key = any` and `DATA set key` select the same data: the printer writes the short form on purpose
        return StructVal("DataKey", {"set": c["set"], "key": c["key"], "qualifier": c["qualifier"]})
    if isinstance(c, EnumVal) and c.name == "Union" and c.args:
        return EnumVal("Union", [[normalise(x) for x in c.args[0]]])
    return c


def enumlike(v):
    return isinstance(v, EnumVal) and not v.args or v is None or isinstance(v, bool)


def describe_difference(c, c2):
    k1 = c.name if isinstance(c, EnumVal) else c.tyname
    k2 = c2.name if isinstance(c2, EnumVal) else getattr(c2, "tyname", type(c2).__name__)
    if k1 != k2:
        return "%s->%s" % (k1, k2)
    if isinstance(c, EnumVal):
        pairs = [("#%d" % i, a, b) for i, (a, b) in enumerate(zip(c.args, c2.args))]
    else:
        pairs = [(f, c[f], c2.get(f)) for f in sorted(c)]
    out = []
    for f, a, b in pairs:
        if a != b:
            if enumlike(a) and enumlike(b):
                out.append("%s:%s->%s" % (f, a, b))
            elif isinstance(a, EnumVal) and isinstance(b, EnumVal):
                out.append("%s:%s->%s" % (f, a.name, b.name) if a.name != b.name else "%s:%s(..)" % (f, a.name))
            elif isinstance(a, (StructVal, OpVal)) and isinstance(b, (StructVal, OpVal)) and getattr(a, "tyname", None) == getattr(b, "tyname", None):
                inner = [k for k in sorted(a) if a[k] != b.get(k)] if isinstance(a, StructVal) else []
                out.append("%s.%s" % (f, "+".join(inner) or "?"))
            else:
                out.append("%s" % f)
    return "%s{%s}" % (k1, ",".join(out))


def roundtrip_rule(ctx, syn, rid="C09.ROUNDTRIP"):
    r = ctx.rule(rid, "for every constraint value on the grid (every variant without run-time handles x qualifier x depth x offset shape x operator kind): if Constraint::to_string prints it, Constraint::parse reads the text back, completely, as the same constraint (or a reviewed equivalent), and printing that gives the same text")
    m = Model(syn)
    if m.missing:
        for x in m.missing:
            ctx.anchor_missing(r, x)
        return
    m.evaluator()
    for f in m.functions():
        ctx.functions_analysed.add(f.qual)
    try:
        g, skipped = grid(m)
    except (Unknown, Panic, KeyError) as ex:
        ctx.report(r, "grid", "the constraint grid could not be enumerated from the Constraint enum (%s)" % ex, QFILE, None)
        return
    for sk in skipped:
        if "(" in sk:
            ctx.report(r, "unmodelled:" + sk, "Constraint variant %s has a field type this rule has no value domain for: its print/parse round trip is not decided" % sk, m.f["to_string"].file, m.f["to_string"].line)
    reported = {}
    n = printable = 0
    per_kind = {}

    def rep(key, msg, line=None, extra=None):
        if key not in reported:
            reported[key] = 1
            ctx.report(r, key, msg, m.f["to_string"].file, line or m.f["to_string"].line, extra)

    for kind, c in g:
        n += 1
        r.obligations += 1
        try:
            t = m.print_(c)
        except Unknown as u:
            rep("unevaluated:print:%s" % kind, "Constraint::to_string could not be evaluated on %r (%s): the round trip is not decided" % (c, u))
            continue
        except Panic as p:
            rep("print-panics:%s" % kind, "Constraint::to_string reaches a panic source (%s, line %s) on %r" % (p.kind, p.line, c), p.line)
            continue
        if not (isinstance(t, tuple) and t and t[0] == "ok" and isinstance(t[1], str)):
            r.discharged += 1     # not printable: outside the property
            continue
        printable += 1
        per_kind[kind] = per_kind.get(kind, 0) + 1
        text = t[1]
        try:
            p = m.parse_(text)
        except Unknown as u:
            rep("unevaluated:parse:%s" % kind, "Constraint::parse could not be evaluated on the printed form %r (%s): the round trip is not decided" % (text, u), m.f["parse"].line)
            continue
        except Panic as pp:
            rep("parse-panics:%s" % kind, "Constraint::parse reaches a panic source (%s, line %s) on the printed form %r of %r" % (pp.kind, pp.line, text, c), pp.line)
            continue
        if not (isinstance(p, tuple) and p and p[0] == "ok"):
            rep("rejected:%s" % describe_difference(c, c).replace("{}", ""), "the printed form %r of %r is rejected by Constraint::parse" % (text, c), m.f["parse"].line, {"printed": text})
            continue
        c2, attrs, rest = p[1]
        if normalise(c2) != normalise(c) or (isinstance(rest, str) and rest.strip() != ""):
            d = describe_difference(normalise(c), normalise(c2)) if normalise(c2) != normalise(c) else (c.name if isinstance(c, EnumVal) else c.tyname)
            if isinstance(rest, str) and rest.strip():
                d += "|remainder"
            rep("differs:" + d, "%r is printed as %r, which Constraint::parse reads back as %r%s: printing and parsing a query changes it" % (c, text, c2, (" leaving %r unread" % rest) if isinstance(rest, str) and rest.strip() else ""), m.f["to_string"].line, {"printed": text})
            continue
        # printing what was read gives the same text
        try:
            t2 = m.print_(mark(c2))
        except (Unknown, Panic) as ex:
            rep("unevaluated:reprint:%s" % kind, "Constraint::to_string could not be evaluated on the re-parsed %r (%s)" % (c2, ex))
            continue
        if t2 != t:
            rep("unstable:%s" % kind, "%r prints as %r, is read back as %r and that prints as %r: printing is not a fixpoint" % (c, text, c2, t2[1] if isinstance(t2, tuple) else t2))
            continue
        r.discharged += 1
    for kind, k_ in sorted(per_kind.items()):
        r.hit("variant:" + kind, sample={"variant": kind, "printable_values": k_})
    r.notes.append("grid: %d constraint values, %d printable; variants printed from store handles are excluded: %s; evaluator steps: %d" % (n, printable, ", ".join(s_ for s_ in skipped if "(" not in s_), m.steps))
    ctx.floor(r, printable, 350, "printable constraint values evaluated")


# ====================================================================== whole queries
def as_query(v):
    """struct literals inside `impl Query` are written `Self { .. }`"""
    if isinstance(v, StructVal) and v.tyname in ("Self", "Query") and "querytype" in v:
        q = StructVal("Query", dict(v))
        q["subqueries"] = [as_query(x) for x in v.get("subqueries", [])]
        q["constraints"] = [normalise(c) for c in v.get("constraints", [])]
        return q
    return v


def query_grid(model):
    cgrid, _ = grid(model)
    pick = {}
    for kind, c in cgrid:
        pick.setdefault(kind, c)
    c1, c2, c3 = pick["DataKey"], pick["Id"], pick["Text"]   # constraints that round-trip on their own (ROUNDTRIP decides the others)
    types = [EnumVal(v["name"]) for v in model.enums["Type"]["variants"]] if "Type" in model.enums else []

    def Q(querytype="Select", qualifier="Normal", resulttype="Annotation", name="x", constraints=(), cattrs=None, attributes=(), subqueries=()):
        cons = list(constraints)
        return StructVal("Query", {"name": some(name) if name is not None else None, "querytype": EnumVal(querytype), "qualifier": EnumVal(qualifier),
                                   "resulttype": some(EnumVal(resulttype)) if resulttype else None, "constraints": cons,
                                   "constraint_attributes": [list(a) for a in (cattrs if cattrs is not None else [[] for _ in cons])],
                                   "attributes": list(attributes), "subqueries": list(subqueries), "contextvars": StructVal("HashMap", {}), "assignments": []})
    out = []
    printable_types = []
    for t in types:
        q = Q(resulttype=t.name)
        try:
            r = model.call(model.by_type["Query"]["resulttype_as_str"], [], selfv=q)
        except (Unknown, Panic):
            r = None
        if is_some(r):
            printable_types.append(t.name)
    for t in printable_types:
        for name in ("x", None):
            out.append(("plain:%s" % ("named" if name else "anonymous"), Q(resulttype=t, name=name)))
            out.append(("constrained:%s" % ("named" if name else "anonymous"), Q(resulttype=t, name=name, constraints=[c1])))
    leaf = Q(resulttype="TextSelection", name="t")
    leafc = Q(resulttype="AnnotationData", name="d", constraints=[c2])
    for quali in ("Normal", "Optional"):
        for attrs in ((), ("@a",), ("@a", "@b")):
            out.append(("attributes:%d:%s" % (len(attrs), quali), Q(qualifier=quali, attributes=attrs, constraints=[c1, c3], cattrs=[["@k"], []])))
            out.append(("attributes:%d:%s:bare" % (len(attrs), quali), Q(qualifier=quali, attributes=attrs)))
    for outer_cons in ((), (c1,)):
        for subs in ([leaf], [leafc], [leaf, leafc], [leafc, leaf], [Q(resulttype="Annotation", name="b", constraints=[c3], subqueries=[leaf])], [Q(resulttype="Annotation", name="b", subqueries=[leafc]), leaf],
                     [Q(qualifier="Optional", resulttype="TextSelection", name="o", attributes=("@s",))]):
            out.append(("subqueries:%d:%s" % (len(subs), "constrained" if outer_cons else "bare"), Q(constraints=outer_cons, subqueries=subs)))
            out.append(("delete:%d" % len(subs), Q(querytype="Delete", subqueries=subs)))
    return out


def query_roundtrip_rule(ctx, syn, rid="C09.QROUNDTRIP"):
    """the same decision for whole SELECT / DELETE queries: attributes, qualifier, result type, name, constraints with their
    attributes, sub-query blocks (siblings, nested, with and without constraints).  ADD queries are excluded: their
    assignments are not printed at all (known finding C09.PRINT:field:assignments)."""
    r = ctx.rule(rid, "for every SELECT / DELETE query on the grid (result types x name x attributes x OPTIONAL x constraint lists x sub-query shapes): Query::parse reads the text Query::to_string prints, completely, as the same query, and printing that gives the same text")
    m = Model(syn)
    if m.missing:
        for x in m.missing:
            ctx.anchor_missing(r, x)
        return
    m.evaluator()
    qf = m.by_type.get("Query", {})
    need = ("parse", "parse_with_attributes", "parse_select", "parse_delete", "parse_name", "parse_subqueries", "parse_qualifier", "parse_attributes", "to_string", "resulttype_as_str")
    miss = [n for n in need if n not in qf]
    if miss:
        ctx.anchor_missing(r, "Query::" + ", Query::".join(miss))
        return
    for n in need:
        ctx.functions_analysed.add(qf[n].qual)
    try:
        g = query_grid(m)
    except (Unknown, Panic, KeyError) as ex:
        ctx.report(r, "grid", "the query grid could not be built (%s)" % ex, QFILE, None)
        return
    reported = set()

    def rep(key, msg, line=None, extra=None):
        if key not in reported:
            reported.add(key)
            ctx.report(r, key, msg, QFILE, line or qf["to_string"].line, extra)
    n = 0
    shapes = {}
    for shape, q in g:
        r.obligations += 1
        try:
            t = m.call(qf["to_string"], [], selfv=q)
        except Unknown as u:
            rep("unevaluated:print", "Query::to_string could not be evaluated on a %s query (%s): the round trip is not decided" % (shape, u))
            continue
        except Panic as p:
            rep("print-panics:" + shape, "Query::to_string reaches a panic source (%s, line %s) on a %s query" % (p.kind, p.line, shape), p.line)
            continue
        if not (isinstance(t, tuple) and t and t[0] == "ok" and isinstance(t[1], str)):
            r.discharged += 1
            continue
        text = t[1]
        n += 1
        shapes[shape] = shapes.get(shape, 0) + 1
        try:
            p = m.call(qf["parse"], [text])
        except Unknown as u:
            rep("unevaluated:parse", "Query::parse could not be evaluated on the printed form %r (%s): the round trip is not decided" % (text, u), qf["parse"].line)
            continue
        except Panic as pp:
            rep("parse-panics:" + shape, "Query::parse reaches a panic source (%s, line %s) on the printed form %r" % (pp.kind, pp.line, text), pp.line)
            continue
        if not (isinstance(p, tuple) and p and p[0] == "ok"):
            rep("rejected:" + shape, "the printed form %r of a %s query is rejected by Query::parse" % (text, shape), qf["parse"].line, {"printed": text})
            continue
        q2, rest = p[1]
        q2 = as_query(q2)
        qn = as_query(q)
        if q2 != qn or (isinstance(rest, str) and rest.strip()):
            fields = sorted(k for k in qn if qn[k] != q2.get(k)) if isinstance(q2, StructVal) else ["?"]
            rep("differs:%s:%s%s" % (shape.split(":")[0], "+".join(fields), "|remainder" if isinstance(rest, str) and rest.strip() else ""),
                "a %s query is printed as %r, which Query::parse reads back differing in %s%s: printing and parsing a query changes it" % (shape, text, ", ".join(fields) or "nothing", (" and leaves %r unread" % rest) if isinstance(rest, str) and rest.strip() else ""), qf["to_string"].line, {"printed": text})
            continue
        try:
            t2 = m.call(qf["to_string"], [], selfv=q2)
        except (Unknown, Panic) as ex:
            rep("unevaluated:reprint", "Query::to_string could not be evaluated on the re-parsed query (%s)" % ex)
            continue
        if t2 != t:
            rep("unstable:" + shape, "a %s query prints as %r, is read back and then prints as %r: printing is not a fixpoint" % (shape, text, t2[1] if isinstance(t2, tuple) else t2))
            continue
        r.discharged += 1
    for shape, k_ in sorted(shapes.items()):
        r.hit("shape:" + shape, sample={"shape": shape, "queries": k_})
    r.notes.append("grid: %d queries, %d printable; evaluator steps: %d" % (len(g), n, m.steps))
    ctx.floor(r, n, 50, "printable queries evaluated")
