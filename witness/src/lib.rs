//! Compile-fail witnesses for the ownership assumptions of the static rules (run with
//! `cargo +nightly test --doc --offline`; error codes are only honoured on nightly).
//! Every `compile_fail` block has a twin that differs only by the offending line and must compile,
//! so that a witness cannot pass because of a wrong path or a missing import.

/// W1 (C01.OWN / C03.IDW): the reverse indices of the store are not reachable from outside the crate.
/// ```compile_fail,E0616
/// let store = stam::AnnotationStore::default();
/// let _ = &store.annotation_annotation_map; // private field
/// ```
/// twin:
/// ```
/// let store = stam::AnnotationStore::default();
/// let _ = store.annotations_len();
/// ```
pub struct W1IndexFieldsArePrivate;

/// W2 (C04.STORE): a TextSelection cannot be forged with a struct literal outside the crate.
/// ```compile_fail,E0451
/// let _ = stam::TextSelection { intid: None, begin: 5, end: 2 };
/// ```
/// twin:
/// ```
/// let ts: Option<stam::TextSelection> = None;
/// let _ = ts.map(|t| t.begin());
/// ```
pub struct W2TextSelectionFieldsArePrivate;

/// W3 (C08.SET / C01.SORTED): the unchecked append that may break sortedness is crate-private.
/// ```compile_fail,E0624
/// use stam::*;
/// let store = AnnotationStore::default();
/// let mut h: Handles<Annotation> = Handles::new_empty(&store);
/// h.add_unchecked(AnnotationHandle::new(0));
/// ```
/// twin:
/// ```
/// use stam::*;
/// let store = AnnotationStore::default();
/// let mut h: Handles<Annotation> = Handles::new_empty(&store);
/// h.add(AnnotationHandle::new(0));
/// ```
pub struct W3AddUncheckedIsPrivate;

/// W4 (C01.OWN): the callbacks that maintain the indices cannot be called from outside (sealed module).
/// ```compile_fail,E0599
/// use stam::*;
/// let mut store = AnnotationStore::default();
/// let _ = store.inserted(AnnotationHandle::new(0));
/// ```
/// twin:
/// ```
/// use stam::*;
/// let store = AnnotationStore::default();
/// let _ = store.annotation(AnnotationHandle::new(0));
/// ```
pub struct W4CallbacksAreSealed;

/// W5 (C03.IDW): `StoreFor::idmap_mut` / `store_mut` are *public* trait methods (low-level API, outside the
/// operation set the properties quantify over), but the id map's content is not reachable through them.
/// ```compile_fail,E0616
/// use stam::*;
/// let mut store = AnnotationStore::default();
/// let idmap = StoreFor::<Annotation>::idmap_mut(&mut store).unwrap();
/// let _ = &idmap.data; // private field
/// ```
/// twin:
/// ```
/// use stam::*;
/// let mut store = AnnotationStore::default();
/// let idmap = StoreFor::<Annotation>::idmap_mut(&mut store).unwrap();
/// let _ = idmap;
/// ```
pub struct W5IdMapContentIsPrivate;
