use stam::*;

/// C17: the target of an annotation on a dataset names the dataset under the prefix for datasets,
/// the same one the body uses for the keys of that dataset
#[test]
fn dataset_target_uses_the_set_prefix() -> Result<(), StamError> {
    let mut store = AnnotationStore::default()
        .with_id("t")
        .with_resource(TextResourceBuilder::new().with_id("r").with_text("hello world"))?
        .with_dataset(AnnotationDataSetBuilder::new().with_id("myset"))?;
    store.annotate(
        AnnotationBuilder::new()
            .with_id("A1")
            .with_target(SelectorBuilder::datasetselector("myset"))
            .with_data("myset", "comment", "about the set"),
    )?;
    let config = WebAnnoConfig {
        default_set_iri: "http://sets.example.org/".to_string(),
        default_resource_iri: "http://res.example.org/".to_string(),
        default_annotation_iri: "http://anno.example.org/".to_string(),
        ..WebAnnoConfig::default()
    };
    let out = store.annotation("A1").or_fail()?.to_webannotation(&config);
    let json: serde_json::Value = serde_json::from_str(&out).expect("valid JSON");
    assert_eq!(json["target"]["id"], "http://sets.example.org/myset", "{}", out);
    Ok(())
}
