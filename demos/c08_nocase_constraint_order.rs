use stam::*;
fn ids(store: &AnnotationStore, q: &str) -> Vec<String> {
    let q: Query = q.try_into().unwrap();
    let mut v: Vec<String> = store.query(q).unwrap().filter_map(|r| if let Ok(QueryResultItem::Annotation(a)) = r.get_by_name("a") { a.id().map(|s| s.to_string()) } else { None }).collect();
    v.sort(); v
}
#[test]
fn nocase_constraint_order() -> Result<(), StamError> {
    let mut store = AnnotationStore::default()
        .with_id("test")
        .with_resource(TextResourceBuilder::new().with_id("r").with_text("Hello world"))?
        .with_dataset(AnnotationDataSetBuilder::new().with_id("s"))?;
    store.annotate(AnnotationBuilder::new().with_id("A1")
        .with_target(SelectorBuilder::textselector("r", Offset::simple(0, 5)))
        .with_data("s", "pos", "x"))?;
    let first = ids(&store, "SELECT ANNOTATION ?a WHERE TEXT AS NOCASE \"HELLO\"; DATA \"s\" \"pos\" = \"x\";");
    let second = ids(&store, "SELECT ANNOTATION ?a WHERE DATA \"s\" \"pos\" = \"x\"; TEXT AS NOCASE \"HELLO\";");
    eprintln!("first={:?} second={:?}", first, second);
    assert_eq!(first, vec!["A1".to_string()]);
    assert_eq!(first, second);
    Ok(())
}
