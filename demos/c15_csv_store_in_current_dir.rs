use stam::*;

/// C15: a store saved as STAM CSV under a plain filename (current directory) that refers to a text
/// by absolute filename must load again. The manifest has to name the text file such that it is found.
#[test]
fn csv_store_in_current_directory_with_absolute_resource() -> Result<(), StamError> {
    let base = std::env::temp_dir().join(format!("c15_demo_cwd_{}", std::process::id()));
    std::fs::create_dir_all(&base).expect("tmp dir");
    let textfile = base.join("corpus.txt");
    std::fs::write(&textfile, "Hallå världen, hello world").expect("writing text");
    let textfile = textfile.to_str().unwrap();

    let mut store = AnnotationStore::default()
        .with_id("c15_cwd")
        .with_resource(TextResourceBuilder::new().with_id("corpus").with_filename(textfile))?
        .with_annotation(
            AnnotationBuilder::new()
                .with_id("A1")
                .with_target(SelectorBuilder::textselector("corpus", Offset::simple(6, 13)))
                .with_data_with_id("ds", "pos", "noun", "D1"),
        )?;
    let name = format!("c15_demo_cwd_{}.store.stam.csv", std::process::id());
    store.set_filename(&name);
    store.save()?;
    let manifest = std::fs::read_to_string(&name).expect("manifest written");
    let result = AnnotationStore::from_file(&name, Config::default());
    for f in std::fs::read_dir(".").unwrap().flatten() {
        if f.file_name().to_str().unwrap().starts_with(&format!("c15_demo_cwd_{}", std::process::id())) {
            std::fs::remove_file(f.path()).ok();
        }
    }
    std::fs::remove_dir_all(&base).ok();
    assert!(manifest.contains(textfile), "the manifest does not name {}:\n{}", textfile, manifest);
    let reloaded = result?;
    assert_eq!(reloaded.annotation("A1").unwrap().text_simple(), Some("världen"));
    Ok(())
}

/// a sibling directory whose name starts with the name of the store directory is not inside it
#[test]
fn csv_store_with_resource_in_sibling_directory() -> Result<(), StamError> {
    let base = std::env::temp_dir().join(format!("c15_demo_sib_{}", std::process::id()));
    let project = base.join("proj");
    let other = base.join("proj2");
    std::fs::create_dir_all(&project).expect("tmp dir");
    std::fs::create_dir_all(&other).expect("tmp dir");
    let textfile = other.join("corpus.txt");
    std::fs::write(&textfile, "Hallå världen, hello world").expect("writing text");
    let textfile = textfile.to_str().unwrap();
    let mut store = AnnotationStore::default()
        .with_id("c15_sib")
        .with_resource(TextResourceBuilder::new().with_id("corpus").with_filename(textfile))?
        .with_annotation(
            AnnotationBuilder::new()
                .with_id("A1")
                .with_target(SelectorBuilder::textselector("corpus", Offset::simple(6, 13)))
                .with_data_with_id("ds", "pos", "noun", "D1"),
        )?;
    let filename = project.join("demo.store.stam.csv");
    let filename = filename.to_str().unwrap();
    store.set_filename(filename);
    store.save()?;
    let result = AnnotationStore::from_file(filename, Config::default());
    std::fs::remove_dir_all(&base).ok();
    let reloaded = result?;
    assert_eq!(reloaded.annotation("A1").unwrap().text_simple(), Some("världen"));
    Ok(())
}
