use stam::*;

/// C14: a mutation that fails leaves the store as it was. A failed with_file()/merge must not leave the store
/// in merge mode, without its filename, or with another working directory.
#[test]
fn failed_merge_restores_filename_and_mode() -> Result<(), StamError> {
    let dir = std::env::temp_dir().join(format!("c14_merge_{}", std::process::id()));
    let sub = dir.join("sub");
    std::fs::create_dir_all(&sub).unwrap();
    let good = dir.join("good.store.stam.json");
    std::fs::write(&good, r#"{ "@type": "AnnotationStore", "@id": "good",
        "resources": [ { "@type": "TextResource", "@id": "r", "text": "hello world" } ],
        "annotationsets": [], "annotations": [] }"#).unwrap();
    let bad = sub.join("bad.store.stam.json");
    std::fs::write(&bad, r#"{ "@type": "AnnotationStore", "@id": "bad", "resources": [ { "@type": "TextResource", "@id": "r2" "#).unwrap(); //truncated
    let mut store = AnnotationStore::from_file(good.to_str().unwrap(), Config::default())?;
    let filename_before = store.filename().map(|s| s.to_string());
    let workdir_before = store.config().workdir().map(|p| p.to_path_buf());
    assert!(filename_before.is_some());
    let result = store.add_substore(bad.to_str().unwrap());
    assert!(result.is_err());
    let filename_after = store.filename().map(|s| s.to_string());
    let workdir_after = store.config().workdir().map(|p| p.to_path_buf());
    std::fs::remove_dir_all(&dir).ok();
    assert_eq!(filename_before, filename_after, "the store lost its filename in a failed merge");
    assert_eq!(workdir_before, workdir_after, "the working directory was not restored after a failed merge");
    Ok(())
}
