use stam::*;
#[test]
fn referrer_listed_once() {
    let mut store = AnnotationStore::default().with_id("s")
        .with_resource(TextResourceBuilder::new().with_id("r").with_text("hello world")).unwrap();
    store.annotate(AnnotationBuilder::new().with_id("A").with_target(SelectorBuilder::textselector("r", Offset::simple(0,11)))).unwrap();
    store.annotate(AnnotationBuilder::new().with_id("X").with_target(SelectorBuilder::MultiSelector(vec![
        SelectorBuilder::annotationselector("A", Some(Offset::simple(0,5))),
        SelectorBuilder::annotationselector("A", Some(Offset::simple(6,11)))]))).unwrap();
    store.annotate(AnnotationBuilder::new().with_id("Y").with_target(SelectorBuilder::MultiSelector(vec![
        SelectorBuilder::textselector("r", Offset::simple(0,5)),
        SelectorBuilder::textselector("r", Offset::simple(8,9)),
        SelectorBuilder::textselector("r", Offset::simple(0,5))]))).unwrap();
    let a = store.annotation("A").unwrap();
    let refs: Vec<_> = a.annotations().map(|x| x.id().unwrap().to_string()).collect();
    println!("A.annotations() = {:?}", refs);
    let r = store.resource("r").unwrap();
    let ts = r.textselection(&Offset::simple(0,5)).unwrap();
    let refs2: Vec<_> = ts.annotations().map(|x| x.id().unwrap().to_string()).collect();
    println!("ts.annotations() = {:?}", refs2);
    let refs3: Vec<_> = r.annotations().map(|x| x.id().unwrap().to_string()).collect();
    println!("r.annotations() = {:?}", refs3);
    assert_eq!(refs, vec!["X"]);
    assert_eq!(refs2.iter().filter(|x| *x == "Y").count(), 1);
    assert_eq!(refs3.iter().filter(|x| *x == "Y").count(), 1);
    // removal leaves nothing behind
    store.remove_annotation("X").unwrap();
    store.remove_annotation("Y").unwrap();
    let a = store.annotation("A").unwrap();
    assert_eq!(a.annotations().count(), 0);
}
