use stam::*;
#[test]
fn empty_needle_terminates() -> Result<(), StamError> {
    let store = AnnotationStore::default()
        .with_id("test")
        .with_resource(TextResourceBuilder::new().with_id("r").with_text("héllo"))?;
    let res = store.resource("r").unwrap();
    let hits: Vec<(usize, usize)> = res.find_text("").take(100).map(|t| (t.begin(), t.end())).collect();
    let want: Vec<(usize, usize)> = "héllo".char_indices().map(|(i, _)| i).chain(std::iter::once("héllo".len())).enumerate().map(|(c, _)| (c, c)).collect();
    assert_eq!(hits, want);
    let hits: Vec<(usize, usize)> = res.find_text_nocase("").take(100).map(|t| (t.begin(), t.end())).collect();
    assert_eq!(hits, want);
    // inside a sub-selection
    let sel = res.textselection(&Offset::simple(1, 3))?;
    let hits: Vec<(usize, usize)> = sel.find_text("").take(100).map(|t| (t.begin(), t.end())).collect();
    assert_eq!(hits, vec![(1, 1), (2, 2), (3, 3)]);
    Ok(())
}
