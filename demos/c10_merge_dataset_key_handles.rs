use stam::*;
#[test]
fn merge_store_with_same_dataset() -> Result<(), StamError> {
    let mut store = AnnotationStore::default()
        .with_id("test")
        .with_resource(TextResourceBuilder::new().with_id("r").with_text("hello world"))?
        .with_dataset(AnnotationDataSetBuilder::new().with_id("s"))?;
    store.annotate(AnnotationBuilder::new().with_id("A1")
        .with_target(SelectorBuilder::textselector("r", Offset::simple(0, 5)))
        .with_data("s", "k1", "a")
        .with_data("s", "k2", "b"))?;
    let other = r#"{ "@type": "AnnotationStore", "@id": "other",
      "annotationsets": [ { "@type": "AnnotationDataSet", "@id": "s",
            "keys": [ { "@type": "DataKey", "@id": "kb" } ],
            "data": [ { "@type": "AnnotationData", "@id": "D9", "key": "kb", "value": { "@type": "String", "value": "x" } } ] } ],
      "resources": [], "annotations": [] }"#;
    store.merge_json_str(other)?;
    let set = store.dataset("s").unwrap();
    for k in set.keys() { eprintln!("key {:?} handle {:?} data {:?}", k.id(), k.handle(), k.data().map(|d| d.id().map(|x| x.to_string())).collect::<Vec<_>>()); }
    let d9 = set.annotationdata("D9").unwrap();
    eprintln!("D9 key = {:?}", d9.key().id());
    assert_eq!(d9.key().id(), Some("kb"));
    let kb = set.key("kb").unwrap();
    assert_eq!(kb.data().count(), 1);
    Ok(())
}
