use stam::*;
#[test]
fn data_query_with_annotation_variable_as_later_constraint() {
    let mut store = AnnotationStore::default().with_id("s")
        .with_resource(TextResourceBuilder::new().with_id("r").with_text("hello world")).unwrap();
    store.annotate(AnnotationBuilder::new().with_id("A1").with_target(SelectorBuilder::textselector("r", Offset::simple(0,5))).with_data("set","k","v").with_data("set","k2","w")).unwrap();
    store.annotate(AnnotationBuilder::new().with_id("A2").with_target(SelectorBuilder::textselector("r", Offset::simple(6,11))).with_data("set","k","z")).unwrap();
    let q: Query = "SELECT ANNOTATION ?a WHERE ID \"A1\"; { SELECT DATA ?d WHERE DATA \"set\" \"k\"; ANNOTATION ?a; }".try_into().unwrap();
    let mut n = 0;
    for r in store.query(q).unwrap() { if let Ok(QueryResultItem::AnnotationData(d)) = r.get_by_name("d") { println!("{:?}", d.value()); n += 1; } }
    assert_eq!(n, 1);
}
