use stam::*;
#[test]
fn dataset_file_that_includes_itself() {
    let dir = std::env::temp_dir().join(format!("demo_selfinclude_{}", std::process::id()));
    let _ = std::fs::remove_dir_all(&dir);
    std::fs::create_dir_all(&dir).unwrap();
    std::fs::write(dir.join("ds.json"), r#"{"@type":"AnnotationDataSet","@id":"s","@include":"ds.json"}"#).unwrap();
    let store_json = r#"{ "@type": "AnnotationStore", "@id": "x", "resources": [], "annotationsets": [ { "@type": "AnnotationDataSet", "@include": "ds.json" } ], "annotations": [] }"#;
    std::fs::write(dir.join("store.json"), store_json).unwrap();
    // run in a thread with a small stack so that a runaway recursion shows up as a failed join rather than killing the test harness
    let path = dir.join("store.json").to_str().unwrap().to_string();
    let r = AnnotationStore::from_file(&path, Config::default());
    assert!(r.is_err(), "a dataset file that includes itself must be refused");
}
