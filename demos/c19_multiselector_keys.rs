use stam::*;

/// C19 / C01: a MultiSelector over two keys (or two data items, or an annotation and a key) is a legal target;
/// building it - through the API or from STAM JSON - must not panic in the comparator that puts the
/// sub-selectors in canonical order.
fn store() -> AnnotationStore {
    let mut store = AnnotationStore::default().with_id("t");
    store
        .add_resource(TextResourceBuilder::new().with_id("r").with_text("hello world"))
        .unwrap();
    store
        .annotate(
            AnnotationBuilder::new()
                .with_id("A1")
                .with_target(SelectorBuilder::textselector("r", Offset::simple(0, 5)))
                .with_data_with_id("s", "pos", "noun", "D1")
                .with_data_with_id("s", "lemma", "hello", "D2"),
        )
        .unwrap();
    store
}

#[test]
fn multiselector_over_two_keys() {
    let mut store = store();
    let r = store.annotate(
        AnnotationBuilder::new()
            .with_id("M1")
            .with_target(SelectorBuilder::multiselector([
                SelectorBuilder::datakeyselector("s", "pos"),
                SelectorBuilder::datakeyselector("s", "lemma"),
            ]))
            .with_data("s", "comment", "about two keys"),
    );
    assert!(r.is_ok(), "{:?}", r.err());
    let a = store.annotation("M1").unwrap();
    assert_eq!(a.keys_as_metadata().count(), 2);
}

#[test]
fn multiselector_over_data_and_annotation_from_json() {
    let mut store = store();
    let json = r#"{ "@type": "Annotation", "@id": "M2",
        "target": { "@type": "MultiSelector", "selectors": [
            { "@type": "AnnotationDataSelector", "annotationset": "s", "data": "D2" },
            { "@type": "AnnotationSelector", "annotation": "A1" },
            { "@type": "AnnotationDataSelector", "annotationset": "s", "data": "D1" } ] },
        "data": [ { "@type": "AnnotationData", "set": "s", "key": "comment", "value": { "@type": "String", "value": "x" } } ] }"#;
    let builder = AnnotationBuilder::from_json_str(json);
    assert!(builder.is_ok(), "{:?}", builder.err());
    let r = store.annotate(builder.unwrap());
    assert!(r.is_ok(), "{:?}", r.err());
    let a = store.annotation("M2").unwrap();
    assert_eq!(a.data_as_metadata().count(), 2);
    assert_eq!(a.annotations_in_targets(AnnotationDepth::One).count(), 1);
}
