use stam::*;

/// C08: each result once. Text selections with the same offsets in two resources must not make one of them come back twice.
#[test]
fn select_text_returns_each_selection_once() -> Result<(), StamError> {
    let mut store = AnnotationStore::default()
        .with_id("t")
        .with_resource(TextResourceBuilder::new().with_id("r1").with_text("hello world"))?
        .with_resource(TextResourceBuilder::new().with_id("r2").with_text("hallo wereld"))?;
    for (id, res, b, e) in [("A1", "r1", 0, 5), ("B1", "r2", 0, 5), ("A2", "r1", 0, 5), ("B2", "r2", 0, 5), ("A3", "r1", 6, 11), ("A4", "r1", 0, 5)] {
        store.annotate(
            AnnotationBuilder::new()
                .with_id(id)
                .with_target(SelectorBuilder::textselector(res, Offset::simple(b, e)))
                .with_data("ds", "type", "word"),
        )?;
    }
    // SELECT TEXT: every known text selection, in textual order
    let query: Query = "SELECT TEXT ?t".try_into()?;
    let mut seen: Vec<(String, usize, usize)> = Vec::new();
    for results in store.query(query)? {
        if let Ok(QueryResultItem::TextSelection(t)) = results.get_by_name("t") {
            seen.push((t.resource().id().unwrap().to_string(), t.begin(), t.end()));
        }
    }
    let mut distinct = seen.clone();
    distinct.sort();
    distinct.dedup();
    assert_eq!(distinct.len(), 3);
    assert_eq!(seen.len(), 3, "a text selection is listed more than once: {:?}", seen);
    Ok(())
}
