use stam::*;
#[test]
fn float_comparison_in_stamql() -> Result<(), StamError> {
    let mut store = AnnotationStore::default()
        .with_id("test")
        .with_resource(TextResourceBuilder::new().with_id("r").with_text("hello world"))?
        .with_dataset(AnnotationDataSetBuilder::new().with_id("s"))?;
    store.annotate(AnnotationBuilder::new().with_id("A1")
        .with_target(SelectorBuilder::textselector("r", Offset::simple(0, 5)))
        .with_data("s", "conf", 0.9))?;
    store.annotate(AnnotationBuilder::new().with_id("A2")
        .with_target(SelectorBuilder::textselector("r", Offset::simple(6, 11)))
        .with_data("s", "conf", 0.3))?;
    // programmatically built query with a float comparison, printed and parsed again
    let q = Query::new(QueryType::Select, Some(Type::Annotation), Some("a"))
        .with_constraint(Constraint::KeyValue { set: "s", key: "conf", operator: DataOperator::GreaterThanFloat(0.5), qualifier: SelectionQualifier::Normal });
    let printed = q.to_string()?;
    eprintln!("{}", printed);
    let parsed: Query = printed.as_str().try_into()?;
    let ids: Vec<_> = store.query(parsed)?.map(|r| r.get_by_name("a").ok().and_then(|x| if let QueryResultItem::Annotation(a) = x { a.id().map(|s| s.to_string()) } else { None })).collect();
    assert_eq!(ids, vec![Some("A1".to_string())]);
    Ok(())
}
