use stam::*;
fn setup() -> Result<AnnotationStore, StamError> {
    let mut store = AnnotationStore::default()
        .with_id("test")
        .with_resource(TextResourceBuilder::new().with_id("r").with_text("hello world"))?
        .with_dataset(AnnotationDataSetBuilder::new().with_id("s"))?;
    store.annotate(AnnotationBuilder::new().with_id("A1")
        .with_target(SelectorBuilder::textselector("r", Offset::simple(0, 5)))
        .with_data("s", "pos", "x"))?;
    store.annotate(AnnotationBuilder::new().with_id("A2")
        .with_target(SelectorBuilder::annotationselector("A1", Some(Offset::whole())))
        .with_data("s", "pos", "x"))?;
    store.annotate(AnnotationBuilder::new().with_id("A3")
        .with_target(SelectorBuilder::textselector("r", Offset::simple(6, 11)))
        .with_data("s", "pos", "y"))?;
    Ok(store)
}
#[test]
fn delete_query_with_dependent() -> Result<(), StamError> {
    let mut store = setup()?;
    let q: Query = "DELETE ANNOTATION ?a { SELECT ANNOTATION ?a WHERE DATA \"s\" \"pos\" = \"x\"; }".try_into()?;
    {
        let r = store.query_mut(q);
        eprintln!("query_mut: {:?}", r.as_ref().err());
        assert!(r.is_ok());
    }
    assert!(store.annotation("A1").is_none());
    assert!(store.annotation("A2").is_none());
    assert!(store.annotation("A3").is_some());
    Ok(())
}
#[test]
fn remove_data_nonstrict_with_dependent() -> Result<(), StamError> {
    let mut store = setup()?;
    let (set, data) = { let d = store.find_data("s", "pos", DataOperator::Equals("x".into())).next().unwrap(); (d.set().handle(), d.handle()) };
    let r = store.remove_data(set, data, false);
    eprintln!("remove_data: {:?}", r.as_ref().err());
    assert!(r.is_ok());
    Ok(())
}
