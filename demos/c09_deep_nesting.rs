use stam::*;

/// C09: the parser returns a query or a syntax error for every input, it never panics or aborts.
/// Unbounded nesting of [ ] blocks or { } blocks recursed until the stack overflowed.
#[test]
fn deep_union_nesting_is_an_error() {
    let handle = std::thread::Builder::new()
        .stack_size(2 * 1024 * 1024)
        .spawn(|| {
            let text = format!("SELECT ANNOTATION ?a WHERE {}", "[ ".repeat(20000));
            let result: Result<Query, StamError> = text.as_str().try_into();
            result.is_err()
        })
        .unwrap();
    assert!(handle.join().expect("parser must not overflow the stack"));
}

#[test]
fn deep_subquery_nesting_is_an_error() {
    let handle = std::thread::Builder::new()
        .stack_size(2 * 1024 * 1024)
        .spawn(|| {
            let text = "SELECT ANNOTATION ?a { ".repeat(20000);
            let result: Result<Query, StamError> = text.as_str().try_into();
            result.is_err()
        })
        .unwrap();
    assert!(handle.join().expect("parser must not overflow the stack"));
}

#[test]
fn moderate_nesting_still_parses() -> Result<(), StamError> {
    let text = "SELECT ANNOTATION ?a WHERE [ [ DATA \"s\" \"k\" OR ID \"x\" ] OR ID \"y\" ]; { SELECT ANNOTATION ?b WHERE ANNOTATION ?a; { SELECT TEXT ?t WHERE ANNOTATION ?b; } }";
    let query: Query = text.try_into()?;
    assert_eq!(query.subqueries().count(), 1);
    Ok(())
}
