use stam::*;
#[test]
fn temp_id_number_must_fit() {
    let mut store = AnnotationStore::default().with_id("s")
        .with_resource(TextResourceBuilder::new().with_id("r").with_text("hello world")).unwrap();
    store.annotate(AnnotationBuilder::new().with_id("A").with_target(SelectorBuilder::textselector("r", Offset::simple(0,5))).with_data("set","k","v")).unwrap();
    let set = store.dataset("set").unwrap();
    assert!(set.key("!K0").is_some());
    assert!(set.key("!K65536").is_none(), "!K65536 must not resolve to key 0");
    assert!(store.annotation("!A4294967296").is_none(), "!A4294967296 must not resolve to annotation 0");
}
