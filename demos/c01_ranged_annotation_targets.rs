use stam::*;

/// C01: asking an annotation for its targets returns exactly what it was built with - whether or not the store
/// keeps consecutive annotation selectors in the compressed (ranged) form internally.
#[test]
fn targets_through_a_compressed_multiselector() {
    let mut store = AnnotationStore::default().with_id("t");
    store
        .add_resource(TextResourceBuilder::new().with_id("r").with_text("hello big world"))
        .unwrap();
    for (i, (b, e)) in [(0, 5), (6, 9), (10, 15)].iter().enumerate() {
        store
            .annotate(
                AnnotationBuilder::new()
                    .with_id(format!("A{}", i))
                    .with_target(SelectorBuilder::textselector("r", Offset::simple(*b, *e)))
                    .with_data("s", "n", i as isize),
            )
            .unwrap();
    }
    // consecutive handles: stored compressed
    store
        .annotate(
            AnnotationBuilder::new()
                .with_id("B")
                .with_target(SelectorBuilder::multiselector([
                    SelectorBuilder::annotationselector("A0", None),
                    SelectorBuilder::annotationselector("A1", None),
                ]))
                .with_data("s", "kind", "pair"),
        )
        .unwrap();
    // not consecutive: stored as is
    store
        .annotate(
            AnnotationBuilder::new()
                .with_id("C")
                .with_target(SelectorBuilder::multiselector([
                    SelectorBuilder::annotationselector("A0", None),
                    SelectorBuilder::annotationselector("A2", None),
                ]))
                .with_data("s", "kind", "pair"),
        )
        .unwrap();
    let b = store.annotation("B").unwrap();
    let c = store.annotation("C").unwrap();
    assert_eq!(c.resources().count(), 1);
    assert_eq!(b.resources().count(), 1, "the resource behind A0 and A1 is not found through B");
    assert_eq!(c.annotations_in_targets(AnnotationDepth::One).count(), 2);
    assert_eq!(b.annotations_in_targets(AnnotationDepth::One).count(), 2);
    // whatever the API answers for the plain form, it answers for the compressed form (same shape of target)
    assert_eq!(b.textselections().count(), c.textselections().count());
    assert_eq!(
        b.annotations_in_targets(AnnotationDepth::Max).count(),
        c.annotations_in_targets(AnnotationDepth::Max).count()
    );
    assert_eq!(b.resources().next().unwrap().id(), Some("r"));
}
