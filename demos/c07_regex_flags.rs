use regex::{Regex, RegexBuilder};
use stam::*;

/// C07: regular-expression search returns what the expressions match on the plain string - also when an
/// expression was built with flags (case-insensitive) and more than two expressions are searched at once.
#[test]
fn case_insensitive_expression_among_three() {
    let mut store = AnnotationStore::default().with_id("t");
    store
        .add_resource(TextResourceBuilder::new().with_id("r").with_text("ABC def GHI"))
        .unwrap();
    let res = store.resource("r").unwrap();
    let ci = RegexBuilder::new("abc").case_insensitive(true).build().unwrap();
    let two = [ci.clone(), Regex::new("def").unwrap()];
    let three = [ci.clone(), Regex::new("def").unwrap(), Regex::new("xyz").unwrap()];
    let found2: Vec<String> = res
        .find_text_regex(&two, None, true)
        .unwrap()
        .map(|m| m.as_str().unwrap().to_string())
        .collect();
    let found3: Vec<String> = res
        .find_text_regex(&three, None, true)
        .unwrap()
        .map(|m| m.as_str().unwrap().to_string())
        .collect();
    assert_eq!(found2, vec!["ABC", "def"]);
    assert_eq!(found3, vec!["ABC", "def"], "adding an expression that matches nothing changed the result");
}
