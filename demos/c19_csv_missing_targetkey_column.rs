use stam::*;
#[test]
fn csv_complex_selector_with_key_subselector_and_no_targetkey_column() {
    let dir = std::env::temp_dir().join("stam_c19_csvkey");
    std::fs::create_dir_all(&dir).unwrap();
    std::fs::write(dir.join("t.store.stam.csv"), "Type,Id,Filename\nAnnotationStore,x,t.annotations.stam.csv\nAnnotationDataSet,https://example.org/test/,t.annotationset.stam.csv\nTextResource,hello.txt,hello.txt\n").unwrap();
    std::fs::write(dir.join("t.annotationset.stam.csv"), "Id,Key,Value\n,pos,\nPosNoun,pos,noun\n").unwrap();
    std::fs::write(dir.join("hello.txt"), "Hello world").unwrap();
    // old style file without the TargetKey/TargetData columns, but with a DataKeySelector inside a complex selector
    std::fs::write(dir.join("t.annotations.stam.csv"), "Id,AnnotationData,AnnotationDataSet,SelectorType,TargetResource,TargetAnnotation,TargetDataSet,BeginOffset,EndOffset\nA1,PosNoun,https://example.org/test/,MultiSelector;TextSelector;DataKeySelector,;hello.txt;,;;,;;https://example.org/test/,;0;,;5;\n").unwrap();
    let r = std::panic::catch_unwind(|| {
        AnnotationStore::from_file(dir.join("t.store.stam.csv").to_str().unwrap(), Config::default()).is_ok()
    });
    println!("{:?}", r.as_ref().map_err(|_| "PANIC"));
    assert!(r.is_ok(), "loading must not panic");
}
