use stam::*;

fn roundtrip(f: f64) -> Result<f64, String> {
    let query = Query::new(QueryType::Select, Some(Type::Annotation), Some("a")).with_constraint(Constraint::KeyValue {
        set: "set",
        key: "key",
        operator: DataOperator::EqualsFloat(f),
        qualifier: SelectionQualifier::Normal,
    });
    let printed = query.to_string().map_err(|e| format!("{:?}", e))?;
    let reparsed: Query = printed.as_str().try_into().map_err(|e| format!("{}: {:?}", printed, e))?;
    match reparsed.iter().next() {
        Some(Constraint::KeyValue { operator: DataOperator::EqualsFloat(g), .. }) => Ok(*g),
        other => Err(format!("printed as {:?}, read back as {:?}", printed, other)),
    }
}

/// C09: a float operand is printed as a literal that reads back as the same float, whatever its magnitude
#[test]
fn floats_of_any_magnitude_roundtrip() {
    for f in [1.0, 2.5, -0.5, 0.000001, 0.00000123, 1e16, 1.5e20, 123456789012345680000.0, -1e-7] {
        assert_eq!(roundtrip(f), Ok(f), "{}", f);
    }
}
