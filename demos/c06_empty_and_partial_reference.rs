use stam::*;

fn store() -> Result<AnnotationStore, StamError> {
    let mut store = AnnotationStore::default()
        .with_id("t")
        .with_resource(TextResourceBuilder::new().with_id("r").with_text("hello brave world"))?;
    store.annotate(
        AnnotationBuilder::new()
            .with_id("W1")
            .with_target(SelectorBuilder::textselector("r", Offset::simple(0, 5)))
            .with_data("ds", "type", "word"),
    )?;
    store.annotate(
        AnnotationBuilder::new()
            .with_id("META")
            .with_target(SelectorBuilder::resourceselector("r"))
            .with_data("ds", "type", "metadata"),
    )?;
    Ok(store)
}

/// C06: an annotation that references no text has no related text: every relation gives nothing (not a panic)
#[test]
fn related_text_of_annotation_without_text_is_empty() -> Result<(), StamError> {
    let store = store()?;
    let meta = store.annotation("META").or_fail()?;
    for op in [
        TextSelectionOperator::equals(),
        TextSelectionOperator::overlaps(),
        TextSelectionOperator::embeds(),
        TextSelectionOperator::embedded(),
        TextSelectionOperator::before(),
        TextSelectionOperator::after(),
        TextSelectionOperator::precedes(),
        TextSelectionOperator::succeeds(),
        TextSelectionOperator::samebegin(),
        TextSelectionOperator::sameend(),
        TextSelectionOperator::samerange(),
    ] {
        assert_eq!(meta.related_text(op).count(), 0, "{:?}", op);
    }
    Ok(())
}

/// C06: EQUALS from a set answers with the known selections equal to its members only if all of them are known
/// ("all in refset must be found, or none are returned at all")
#[test]
fn equals_with_partly_unknown_reference_set_returns_nothing() -> Result<(), StamError> {
    let store = store()?;
    let resource = store.resource("r").or_fail()?;
    let known = resource.textselection(&Offset::simple(0, 5))?;
    let unknown = resource.textselection(&Offset::simple(6, 11))?;
    let set: ResultTextSelectionSet = vec![known, unknown].into_iter().collect();
    let found: Vec<_> = set.related_text(TextSelectionOperator::equals()).map(|t| (t.begin(), t.end())).collect();
    assert_eq!(found, vec![], "a partial match was returned");
    Ok(())
}
