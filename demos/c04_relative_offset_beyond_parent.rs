use stam::*;
#[test]
fn relative_offset_beyond_parent_is_rejected() -> Result<(), StamError> {
    let store = AnnotationStore::default()
        .with_id("test")
        .with_resource(TextResourceBuilder::new().with_id("r").with_text("hello wörld abc"))?;
    let res = store.resource("r").unwrap();
    let sel = res.textselection(&Offset::simple(6, 11))?;
    assert_eq!(sel.text(), "wörld");
    // in range
    assert_eq!(sel.textselection(&Offset::simple(1, 3))?.text(), "ör");
    // begin-aligned end beyond the parent's text (length 5) but inside the resource
    let r = sel.textselection(&Offset::simple(0, 8));
    eprintln!("{:?}", r.as_ref().map(|t| t.text().to_string()));
    assert!(r.is_err(), "offset 0:8 relative to a text of length 5 was accepted");
    let r = sel.textselection(&Offset::simple(6, 7));
    assert!(r.is_err(), "offset 6:7 relative to a text of length 5 was accepted");
    Ok(())
}
