// Demonstration used when triaging the C08.SET findings (not run by any check): drop into /repo/tests/ and
// `cargo test --offline --test c08_handles_union`.  Fails before fix commit 5d06653 ([1] union [0,1] = [0,1,1]).
use stam::*;
#[test]
fn union_semantics() {
    let store = AnnotationStore::default();
    let mk = |v: Vec<u32>| Handles::<Annotation>::from_iter(v.into_iter().map(|x| AnnotationHandle::new(x as usize)), &store);
    let mut bad = 0;
    let sets: Vec<Vec<u32>> = (0u32..64).map(|m| (0..6).filter(|i| m & (1<<i) != 0).collect()).collect();
    for a in sets.iter() { for b in sets.iter() {
        let mut x = mk(a.clone());
        let y = mk(b.clone());
        x.union(&y);
        let got: Vec<u32> = x.iter().map(|h| h.as_usize() as u32).collect();
        let mut want: Vec<u32> = a.iter().chain(b.iter()).copied().collect(); want.sort(); want.dedup();
        if got != want { bad += 1; }
        let mut x = mk(a.clone());
        x.intersection(&y);
        let got: Vec<u32> = x.iter().map(|h| h.as_usize() as u32).collect();
        let want: Vec<u32> = a.iter().filter(|v| b.contains(v)).copied().collect();
        if got != want { bad += 1; }
    }}
    assert_eq!(bad, 0);
}
