use stam::*;
#[test]
fn cascade_two_paths() {
    let mut store = AnnotationStore::default().with_id("s")
        .with_resource(TextResourceBuilder::new().with_id("r").with_text("hello world")).unwrap();
    store.annotate(AnnotationBuilder::new().with_id("A").with_target(SelectorBuilder::textselector("r", Offset::simple(0,5)))).unwrap();
    store.annotate(AnnotationBuilder::new().with_id("B").with_target(SelectorBuilder::annotationselector("A", None))).unwrap();
    store.annotate(AnnotationBuilder::new().with_id("C").with_target(SelectorBuilder::MultiSelector(vec![SelectorBuilder::annotationselector("A", None), SelectorBuilder::annotationselector("B", None)]))).unwrap();
    let r = store.remove_annotation("A");
    println!("remove A: {:?}", r.as_ref().err());
    println!("left: {:?}", store.annotations().map(|a| a.id().unwrap().to_string()).collect::<Vec<_>>());
    assert!(r.is_ok());
    assert_eq!(store.annotations().count(), 0);
}
#[test]
fn remove_resource_with_relative_annotation() {
    let mut store = AnnotationStore::default().with_id("s")
        .with_resource(TextResourceBuilder::new().with_id("r").with_text("hello world")).unwrap();
    store.annotate(AnnotationBuilder::new().with_id("A").with_target(SelectorBuilder::textselector("r", Offset::simple(0,5)))).unwrap();
    store.annotate(AnnotationBuilder::new().with_id("B").with_target(SelectorBuilder::annotationselector("A", Some(Offset::simple(0,2))))).unwrap();
    let r = store.remove_resource("r");
    println!("remove r: {:?}", r.as_ref().err());
    println!("left: {:?}", store.annotations().map(|a| a.id().unwrap().to_string()).collect::<Vec<_>>());
    assert!(r.is_ok());
    assert_eq!(store.annotations().count(), 0);
}
