use stam::*;

/// C04/C19: the most negative end-aligned cursor is out of bounds for every text: an error, not a panic
#[test]
fn endaligned_min_is_rejected() -> Result<(), StamError> {
    let mut store = AnnotationStore::default()
        .with_id("t")
        .with_resource(TextResourceBuilder::new().with_id("r").with_text("hello world"))?;
    let resource = store.resource("r").or_fail()?;
    let offset = Offset::new(Cursor::EndAligned(isize::MIN), Cursor::EndAligned(0));
    assert!(resource.text_by_offset(&offset).is_err());
    assert!(resource.textselection(&offset).is_err());
    let sel = resource.textselection(&Offset::simple(0, 5))?;
    assert!(sel.textselection(&offset).is_err());
    assert!(sel.text_by_offset(&offset).is_err());
    let result = store.annotate(
        AnnotationBuilder::new()
            .with_id("A1")
            .with_target(SelectorBuilder::textselector("r", offset.clone()))
            .with_data("ds", "k", "v"),
    );
    assert!(result.is_err());
    Ok(())
}

#[test]
fn endaligned_min_in_a_file_is_rejected() {
    let json = r#"{ "@type": "AnnotationStore", "@id": "t",
        "resources": [ { "@type": "TextResource", "@id": "r", "text": "hello world" } ],
        "annotationsets": [ { "@type": "AnnotationDataSet", "@id": "ds", "keys": [ {"@type": "DataKey", "@id": "k"} ], "data": [ {"@type":"AnnotationData","@id":"D1","key":"k","value":{"@type":"String","value":"v"}} ] } ],
        "annotations": [ { "@type": "Annotation", "@id": "A1",
            "target": { "@type": "TextSelector", "resource": "r", "offset": { "@type": "Offset",
                "begin": { "@type": "EndAlignedCursor", "value": -9223372036854775808 },
                "end": { "@type": "EndAlignedCursor", "value": 0 } } },
            "data": [ { "@type": "AnnotationData", "@id": "D1", "set": "ds" } ] } ] }"#;
    let result = AnnotationStore::from_str(json, Config::default());
    assert!(result.is_err());
}
