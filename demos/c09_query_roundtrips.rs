use stam::*;
#[test]
fn roundtrip() {
    for q in ["SELECT ANNOTATION ?a WHERE RESOURCE AS METADATA \"hello.txt\";",
              "SELECT ANNOTATION ?a WHERE ANNOTATION AS TARGET RECURSIVE ?x;",
              "SELECT ANNOTATION ?a WHERE TEXT AS NOCASE \"hello\";",
              "SELECT ANNOTATION ?a WHERE DATA \"set\" \"k\" = \"v\"; { SELECT OPTIONAL TEXT ?t WHERE RELATION ?a EMBEDS; }",
              "SELECT ANNOTATION ?a WHERE DATA \"set\" \"k\" = \"v\"; { SELECT TEXT ?t WHERE RELATION ?a EMBEDS; | SELECT DATA ?d WHERE ANNOTATION ?a; }",
              "ADD ANNOTATION ?new WITH DATA \"set\" \"k\" \"v\"; TARGET ?a; { SELECT ANNOTATION ?a WHERE DATA \"set\" \"k\" = \"v\"; }",
    ] {
        let r: Result<Query,_> = q.try_into();
        match r {
            Ok(query) => {
                let printed = query.to_string().unwrap();
                let again: Result<Query,_> = printed.as_str().try_into();
                match again {
                    Ok(q2) => println!("{} | {:?}\n   printed: {}\n   same: {}", if format!("{:?}", query) == format!("{:?}", q2) {"SAME"} else {"DIFF"}, q, printed.replace('\n'," "), format!("{:?}", query) == format!("{:?}", q2)),
                    Err(e) => println!("REPARSE-ERR {:?}\n   printed: {}\n   {}", q, printed.replace('\n'," "), e),
                }
            }
            Err(e) => println!("ERR  {} => {}", q, e),
        }
    }
}
