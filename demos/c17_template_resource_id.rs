use stam::*;

/// C17: the extra target template is filled in with the resource IRI, begin and end; a resource id that happens to
/// contain the text of another placeholder must come out as it is.
#[test]
fn template_placeholders_in_resource_id_are_kept() {
    let mut store = AnnotationStore::default().with_id("t");
    store
        .add_resource(TextResourceBuilder::new().with_id("https://example.org/doc{begin}-{end}").with_text("hello world"))
        .unwrap();
    store
        .annotate(
            AnnotationBuilder::new()
                .with_id("https://example.org/A1")
                .with_target(SelectorBuilder::textselector("https://example.org/doc{begin}-{end}", Offset::simple(6, 11)))
                .with_data("https://example.org/set", "pos", "noun"),
        )
        .unwrap();
    let config = WebAnnoConfig { extra_target_template: Some("{resource}/{begin}/{end}".to_string()), ..WebAnnoConfig::default() };
    let out = store.annotation("https://example.org/A1").unwrap().to_webannotation(&config);
    assert!(out.contains("\"https://example.org/doc{begin}-{end}/6/11\""), "{}", out);
}
