use stam::*;
#[test]
fn textselectionset_in_unknown_resource_is_none() -> Result<(), StamError> {
    let mut store = AnnotationStore::default()
        .with_id("t")
        .with_resource(TextResourceBuilder::new().with_id("r").with_text("hello world"))?;
    store.annotate(
        AnnotationBuilder::new()
            .with_id("A1")
            .with_target(SelectorBuilder::textselector("r", Offset::simple(0, 5)))
            .with_data("ds", "pos", "noun"),
    )?;
    let a = store.annotation("A1").or_fail()?;
    assert!(a.textselectionset_in("r").is_some());
    assert!(a.textselectionset_in("nonexistent").is_none());
    Ok(())
}
