// Demonstration used when triaging the C17 findings (not run by any check): drop into /repo/tests/ and
// `cargo test --offline --test c17_webanno_nasty`.  Fails before fix commit db16dda
// ("expected value" at the unquoted extra context), passes after it.
use stam::*;
#[test]
fn webanno_nasty() {
    let mut store = AnnotationStore::default();
    store = store.with_id("s").with_resource(TextResourceBuilder::new().with_id("r \\ \"x\"\u{1}").with_text("hello world")).unwrap();
    store.annotate(AnnotationBuilder::new().with_id("a\\1")
        .with_target(SelectorBuilder::MultiSelector(vec![SelectorBuilder::textselector("r \\ \"x\"\u{1}", Offset::simple(0,5)), SelectorBuilder::textselector("r \\ \"x\"\u{1}", Offset::simple(6,11))]))
        .with_data("http://www.w3.org/ns/anno/", "motivation", "tab\there \\ \"q\" \u{7} 𝄞")
        .with_data("set\\", "k\"ey", DataValue::List(vec![1.into(), "x\"".into(), DataValue::Null, DataValue::Float(f64::NAN), true.into()]))
        .with_data("set\\", "iri", "http://ex.org/a\\b")
        ).unwrap();
    let mut config = WebAnnoConfig::default();
    config.extra_context.push("http://ex.org/ctx.jsonld".to_string());
    config.context_namespaces.push(("http://ex.org/\\".to_string(), "e\"x".to_string()));
    config.extra_target_template = Some("{resource}/{begin}/{end}".to_string());
    for a in store.annotations() {
        let out = a.to_webannotation(&config);
        let v: serde_json::Value = serde_json::from_str(&out).expect("valid json");
        assert!(v.is_object());
    }
}
