use stam::*;
#[test]
fn selection_relative_bounds() -> Result<(), StamError> {
    let mut store = AnnotationStore::default()
        .with_id("test")
        .with_resource(TextResourceBuilder::new().with_id("r").with_text("Hallå världen abc"))?;
    store.annotate(AnnotationBuilder::new().with_id("A1")
        .with_target(SelectorBuilder::textselector("r", Offset::simple(2, 5)))
        .with_data("s", "k", "v"))?;
    let res = store.resource("r").unwrap();
    // a known (bound) text selection: ResultItem<TextSelection> through the annotation
    let bound = store.annotation("A1").unwrap().textselections().next().unwrap();
    assert_eq!(bound.text(), "llå");
    for sel in [bound.clone(), res.textselection(&Offset::simple(2, 5))?] {
        assert!(sel.textselection(&Offset::simple(0, 6)).is_err(), "offset 0:6 relative to 3 characters accepted");
        assert!(sel.utf8byte(5).is_err(), "utf8byte(5) on 3 characters answered {:?}", sel.utf8byte(5));
        assert!(sel.utf8byte_to_charpos(6).is_err(), "utf8byte_to_charpos(6) on 4 bytes answered {:?}", sel.utf8byte_to_charpos(6));
        let r = std::panic::catch_unwind(std::panic::AssertUnwindSafe(|| sel.text_by_offset(&Offset::simple(0, 6)).is_err()));
        assert_eq!(r.ok(), Some(true), "text_by_offset(0:6) on 3 characters must be an error");
        assert_eq!(sel.utf8byte(3)?, 4);
        assert_eq!(sel.text_by_offset(&Offset::simple(1, 3))?, "lå");
    }
    Ok(())
}
