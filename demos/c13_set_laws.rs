use stam::*;

fn set(store: &AnnotationStore, ranges: &[(usize, usize)]) -> TextSelectionSet {
    let res = store.resource("r").unwrap();
    let mut s = TextSelectionSet::new(res.handle());
    for (b, e) in ranges {
        s.add(res.textselection(&Offset::simple(*b, *e)).unwrap().inner().clone());
    }
    s
}

fn store() -> AnnotationStore {
    let mut store = AnnotationStore::default().with_id("t");
    store
        .add_resource(TextResourceBuilder::new().with_id("r").with_text("0123456789012345678901234567890123456789"))
        .unwrap();
    store
}

/// C13: embeds is the converse of embedded for every pair of sets
#[test]
fn embeds_is_converse_of_embedded_on_two_member_sets() {
    let store = store();
    let a = set(&store, &[(0, 10), (20, 30)]);
    let b = set(&store, &[(1, 2)]);
    let res = store.resource("r").unwrap();
    let ab = a.test_set(&TextSelectionOperator::embeds(), &b, res.as_ref());
    let ba = b.test_set(&TextSelectionOperator::embedded(), &a, res.as_ref());
    assert_eq!(ab, ba, "embeds(A,B)={} but embedded(B,A)={}", ab, ba);
}

/// C13: overlaps is symmetric for every pair of sets
#[test]
fn overlaps_is_symmetric_on_two_member_sets() {
    let store = store();
    let a = set(&store, &[(0, 2)]);
    let b = set(&store, &[(1, 3), (5, 6)]);
    let res = store.resource("r").unwrap();
    let ab = a.test_set(&TextSelectionOperator::overlaps(), &b, res.as_ref());
    let ba = b.test_set(&TextSelectionOperator::overlaps(), &a, res.as_ref());
    assert_eq!(ab, ba, "overlaps(A,B)={} but overlaps(B,A)={}", ab, ba);
}

/// C13: before is the converse of after for every pair of sets
#[test]
fn before_is_converse_of_after_on_two_member_sets() {
    let store = store();
    let a = set(&store, &[(0, 2)]);
    let b = set(&store, &[(1, 3), (5, 6)]);
    let res = store.resource("r").unwrap();
    let ab = a.test_set(&TextSelectionOperator::before(), &b, res.as_ref());
    let ba = b.test_set(&TextSelectionOperator::after(), &a, res.as_ref());
    assert_eq!(ab, ba, "before(A,B)={} but after(B,A)={}", ab, ba);
}

/// C13: precedes is the converse of succeeds for every pair of sets
#[test]
fn precedes_is_converse_of_succeeds_on_two_member_sets() {
    let store = store();
    let a = set(&store, &[(0, 2)]);
    let b = set(&store, &[(2, 3), (5, 6)]);
    let res = store.resource("r").unwrap();
    let ab = a.test_set(&TextSelectionOperator::precedes(), &b, res.as_ref());
    let ba = b.test_set(&TextSelectionOperator::succeeds(), &a, res.as_ref());
    assert_eq!(ab, ba, "precedes(A,B)={} but succeeds(B,A)={}", ab, ba);
}

/// C13: a negated relation is the exact complement - also when the subject set is empty
#[test]
fn negation_is_complement_for_empty_subject() {
    let store = store();
    let a = set(&store, &[]);
    let b = set(&store, &[(2, 3), (5, 6)]);
    let res = store.resource("r").unwrap();
    let pos = a.test_set(&TextSelectionOperator::overlaps(), &b, res.as_ref());
    let neg = a.test_set(&TextSelectionOperator::overlaps().toggle_negate(), &b, res.as_ref());
    assert_ne!(pos, neg, "overlaps and !overlaps both answer {}", pos);
}
