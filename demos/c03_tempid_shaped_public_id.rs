use stam::*;

/// C03: looking up a public identifier returns the one live item whose identifier is that string.
/// A public id that has the shape of a temporary id ("!K1") is still a public id: the item that carries it
/// must be found under it, not whatever item happens to sit in slot 1.
#[test]
fn public_id_shaped_like_a_temporary_id_resolves_to_its_holder() {
    let mut store = AnnotationStore::default().with_id("t");
    store
        .add_dataset(
            AnnotationDataSetBuilder::new()
                .with_id("ds")
                .with_key("!K1")
                .with_key("foo"),
        )
        .unwrap();
    let set = store.dataset("ds").unwrap();
    let k = set.key("!K1").expect("the key exists");
    assert_eq!(k.id(), Some("!K1"));
    assert_eq!(k.handle().as_usize(), 0);
    // the temporary form still works for items that carry no such public id
    let k1 = set.key("!K0").expect("temporary id of the first key");
    assert_eq!(k1.id(), Some("!K1"));
}

#[test]
fn dataset_created_under_a_temp_shaped_name_is_found_under_it() {
    let mut store = AnnotationStore::default().with_id("t");
    store
        .add_resource(TextResourceBuilder::new().with_id("r").with_text("hello world"))
        .unwrap();
    store
        .annotate(
            AnnotationBuilder::new()
                .with_id("A1")
                .with_target(SelectorBuilder::textselector("r", Offset::simple(0, 5)))
                .with_data("!S3", "pos", "noun"),
        )
        .unwrap();
    let ds = store.datasets().next().expect("a dataset was created");
    assert_eq!(ds.id(), Some("!S3"));
    assert!(store.dataset("!S3").is_some(), "the dataset is not found under its own id");
}
