use regex::Regex;
use stam::*;

/// C07: with allow_overlap=false the matches of several expressions do not overlap one another
#[test]
fn buffered_matches_inside_a_longer_match_are_all_skipped() {
    let mut store = AnnotationStore::default().with_id("t");
    store
        .add_resource(TextResourceBuilder::new().with_id("r").with_text("abcdef ghi"))
        .unwrap();
    let res = store.resource("r").unwrap();
    let expressions = [Regex::new("abcdef").unwrap(), Regex::new("[a-z]").unwrap()];
    let found: Vec<(usize, usize)> = res
        .find_text_regex(&expressions, None, false)
        .unwrap()
        .map(|m| {
            let ts = &m.textselections()[0];
            (ts.begin(), ts.end())
        })
        .collect();
    for (i, a) in found.iter().enumerate() {
        for b in found.iter().skip(i + 1) {
            assert!(a.1 <= b.0 || b.1 <= a.0, "{:?} and {:?} overlap in {:?}", a, b, found);
        }
    }
    assert_eq!(found, vec![(0, 6), (7, 8), (8, 9), (9, 10)]);
}
