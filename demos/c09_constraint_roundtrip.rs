use stam::*;

fn roundtrip(text: &str) -> Result<(String, String), StamError> {
    let query: Query = text.try_into()?;
    let printed = query.to_string()?;
    let again = {
        let reparsed: Query = printed.as_str().try_into().map_err(|e| {
            eprintln!("printed form does not parse:\n{}", printed);
            e
        })?;
        reparsed.to_string()?
    };
    Ok((printed, again))
}

/// KEY ?k is printed as DATA ?k, which means something else (a data variable)
#[test]
fn key_variable_roundtrips() -> Result<(), StamError> {
    let text = "SELECT DATA ?d WHERE KEY ?k; ";
    let query: Query = text.try_into()?;
    assert!(matches!(query.iter().next(), Some(Constraint::KeyVariable("k", SelectionQualifier::Normal))));
    let printed = query.to_string()?;
    let reparsed: Query = printed.as_str().try_into()?;
    assert!(
        matches!(reparsed.iter().next(), Some(Constraint::KeyVariable("k", SelectionQualifier::Normal))),
        "printed as: {}",
        printed
    );
    Ok(())
}

/// a programmatically built recursive annotation constraint without AS TARGET/METADATA prints as
/// ANNOTATION RECURSIVE ?x, which the parser reads as the annotation with id RECURSIVE
#[test]
fn recursive_without_qualifier_roundtrips() -> Result<(), StamError> {
    let query = Query::new(QueryType::Select, Some(Type::Annotation), Some("a")).with_constraint(
        Constraint::AnnotationVariable("x", SelectionQualifier::Normal, AnnotationDepth::Max, None),
    );
    let printed = query.to_string()?;
    let reparsed: Query = printed.as_str().try_into().map_err(|e| {
        eprintln!("printed form does not parse:\n{}", printed);
        e
    })?;
    assert!(
        matches!(
            reparsed.iter().next(),
            Some(Constraint::AnnotationVariable("x", SelectionQualifier::Normal, AnnotationDepth::Max, None))
        ),
        "printed as: {}",
        printed
    );
    Ok(())
}

/// a quoted "true" / "null" / "any" / "3" is a string, not a boolean, null, wildcard or number
#[test]
fn quoted_special_words_stay_strings() -> Result<(), StamError> {
    for word in ["true", "false", "null", "any", "2024-01-01T00:00:00+00:00"] {
        let text = format!("SELECT ANNOTATION ?a WHERE DATA \"set\" \"key\" = \"{}\";", word);
        let query: Query = text.as_str().try_into()?;
        match query.iter().next() {
            Some(Constraint::KeyValue { operator: DataOperator::Equals(s), .. }) => assert_eq!(s.as_ref(), word),
            other => panic!("\"{}\" in quotes was parsed as {:?}", word, other),
        }
        let (printed, again) = roundtrip(&text)?;
        assert_eq!(printed, again);
    }
    Ok(())
}
