use stam::*;
#[test]
fn qualifiers_parse() {
    for q in ["SELECT ANNOTATION ?a WHERE RESOURCE AS METADATA \"hello.txt\";",
              "SELECT ANNOTATION ?a WHERE ANNOTATION AS TARGET RECURSIVE ?x;",
              "SELECT ANNOTATION ?a WHERE TEXT AS NOCASE \"hello\";"] {
        let r: Result<Query,_> = q.try_into();
        match &r {
            Ok(query) => println!("OK   {} => {:?}", q, query.iter().collect::<Vec<_>>()),
            Err(e) => println!("ERR  {} => {}", q, e),
        }
    }
}
