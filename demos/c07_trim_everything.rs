use stam::*;
#[test]
fn trim_everything() -> Result<(), StamError> {
    let store = AnnotationStore::default()
        .with_id("test")
        .with_resource(TextResourceBuilder::new().with_id("r").with_text("   "))?
        .with_resource(TextResourceBuilder::new().with_id("r2").with_text("ab   cd"))?;
    let res = store.resource("r").unwrap();
    assert_eq!(res.trim_text(&[' '])?.text(), "   ".trim_matches(' '));
    assert_eq!(res.trim_text_with(|c| c == ' ')?.text(), "");
    let sub = store.resource("r2").unwrap().textselection(&Offset::simple(2, 5))?;
    assert_eq!(sub.text(), "   ");
    assert_eq!(sub.trim_text(&[' '])?.text(), "");
    assert_eq!(store.resource("r2").unwrap().trim_text(&['a', 'd'])?.text(), "b   c");
    Ok(())
}
