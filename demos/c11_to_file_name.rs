use stam::*;

fn store() -> Result<AnnotationStore, StamError> {
    AnnotationStore::default()
        .with_id("t")
        .with_resource(TextResourceBuilder::new().with_id("r").with_text("hello world"))?
        .with_annotation(
            AnnotationBuilder::new()
                .with_id("A1")
                .with_target(SelectorBuilder::textselector("r", Offset::simple(0, 5)))
                .with_data_with_id("ds", "pos", "noun", "D1"),
        )
}

/// C11: what to_file(name) writes can be loaded with from_file(name)
#[test]
fn to_file_cbor_writes_the_file_it_was_given() -> Result<(), StamError> {
    let dir = std::env::temp_dir().join(format!("c11_name_{}", std::process::id()));
    std::fs::create_dir_all(&dir).unwrap();
    let name = dir.join("x.cbor");
    let name = name.to_str().unwrap();
    let mut store = store()?;
    store.to_file(name)?;
    let exists = std::path::Path::new(name).exists();
    let listing: Vec<_> = std::fs::read_dir(&dir).unwrap().flatten().map(|e| e.file_name()).collect();
    let loaded = AnnotationStore::from_file(name, Config::default());
    std::fs::remove_dir_all(&dir).ok();
    assert!(exists, "to_file({}) wrote {:?}", name, listing);
    let loaded = loaded?;
    assert_eq!(loaded.annotation("A1").unwrap().text_simple(), Some("hello"));
    Ok(())
}

#[test]
fn to_file_json_writes_the_file_it_was_given() -> Result<(), StamError> {
    let dir = std::env::temp_dir().join(format!("c11_namej_{}", std::process::id()));
    std::fs::create_dir_all(&dir).unwrap();
    let cbor = dir.join("first.store.stam.cbor");
    let mut store = store()?;
    store.to_file(cbor.to_str().unwrap())?;
    let name = dir.join("second.json");
    let name = name.to_str().unwrap();
    store.to_file(name)?;
    let exists = std::path::Path::new(name).exists();
    let listing: Vec<_> = std::fs::read_dir(&dir).unwrap().flatten().map(|e| e.file_name()).collect();
    std::fs::remove_dir_all(&dir).ok();
    assert!(exists, "to_file({}) wrote {:?}", name, listing);
    Ok(())
}
