use stam::*;
#[test]
fn programmatic_query_prints_its_constraints() {
    let q = Query::new(QueryType::Select, Some(Type::Annotation), Some("a"))
        .with_constraint(Constraint::DataKey{ set: "set", key: "k", qualifier: SelectionQualifier::Normal })
        .with_constraint(Constraint::Limit{ begin: 0, end: 2 });
    let s = q.to_string().unwrap();
    println!("{}", s);
    let q2: Query = s.as_str().try_into().unwrap();
    assert_eq!(q2.iter().count(), 2);
}
