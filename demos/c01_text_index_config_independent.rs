use stam::*;
#[test]
fn text_index_without_annotation_annotation_map() -> Result<(), StamError> {
    let mut store = AnnotationStore::new(Config::default().with_annotation_annotation_map(false))
        .with_id("test")
        .with_resource(TextResourceBuilder::new().with_id("r").with_text("hello brave new world"))?;
    store.annotate(AnnotationBuilder::new().with_id("S")
        .with_target(SelectorBuilder::textselector("r", Offset::simple(6, 15)))
        .with_data("s", "type", "phrase"))?;
    store.annotate(AnnotationBuilder::new().with_id("W")
        .with_target(SelectorBuilder::annotationselector("S", Some(Offset::simple(0, 5))))
        .with_data("s", "type", "word"))?;
    let w = store.annotation("W").unwrap();
    assert_eq!(w.text_simple(), Some("brave"));
    let res = store.resource("r").unwrap();
    let tsel = res.textselection(&Offset::simple(6, 11))?;
    let ids: Vec<_> = tsel.annotations().map(|a| a.id().unwrap().to_string()).collect();
    assert_eq!(ids, vec!["W".to_string()], "the annotation on 'brave' is not found through its text");
    Ok(())
}
