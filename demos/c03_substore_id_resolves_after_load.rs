use stam::*;
#[test]
fn substore_id_resolves_after_load() -> Result<(), StamError> {
    let store = AnnotationStore::from_file("tests/includetest.store.stam.json", Config::default())?;
    let ids: Vec<_> = store.substores().map(|s| s.id().map(|x| x.to_string())).collect();
    assert!(!ids.is_empty());
    for id in ids.into_iter().flatten() {
        assert!(store.substore(id.as_str()).is_some(), "substore id {:?} does not resolve", id);
    }
    Ok(())
}
