use stam::*;
#[test]
fn integral_float_keeps_its_type() -> Result<(), StamError> {
    let query = Query::new(QueryType::Select, Some(Type::Annotation), Some("a")).with_constraint(Constraint::KeyValue {
        set: "set",
        key: "key",
        operator: DataOperator::EqualsFloat(1.0),
        qualifier: SelectionQualifier::Normal,
    });
    let printed = query.to_string()?;
    let reparsed: Query = printed.as_str().try_into()?;
    match reparsed.iter().next() {
        Some(Constraint::KeyValue { operator: DataOperator::EqualsFloat(f), .. }) => assert_eq!(*f, 1.0),
        other => panic!("printed as {:?}, read back as {:?}", printed, other),
    }
    assert_eq!(reparsed.to_string()?, printed);
    Ok(())
}
