use stam::*;
#[test]
fn depth_zero_order_independent() {
    let mut store = AnnotationStore::default().with_id("s")
        .with_resource(TextResourceBuilder::new().with_id("r").with_text("hello world")).unwrap();
    store.annotate(AnnotationBuilder::new().with_id("A1").with_target(SelectorBuilder::textselector("r", Offset::simple(0,5))).with_data("set","k","v")).unwrap();
    store.annotate(AnnotationBuilder::new().with_id("A2").with_target(SelectorBuilder::annotationselector("A1", None)).with_data("set","k","v")).unwrap();
    let c = || Constraint::Annotation("A2", SelectionQualifier::Normal, AnnotationDepth::Zero, None);
    let d = || Constraint::DataKey{ set: "set", key: "k", qualifier: SelectionQualifier::Normal };
    let run = |q: Query| -> Vec<String> {
        let mut v = Vec::new();
        for r in store.query(q).unwrap() { if let Ok(QueryResultItem::Annotation(a)) = r.get_by_name("y") { v.push(a.id().unwrap().to_string()); } }
        v.sort(); v
    };
    let first = run(Query::new(QueryType::Select, Some(Type::Annotation), Some("y")).with_constraint(c()).with_constraint(d()));
    let later = run(Query::new(QueryType::Select, Some(Type::Annotation), Some("y")).with_constraint(d()).with_constraint(c()));
    println!("first={:?} later={:?}", first, later);
    assert_eq!(first, later);
}
