use stam::*;
#[test]
fn whole_offsets_keep_their_alignment_in_complex_selectors() -> Result<(), StamError> {
    let mut store = AnnotationStore::default()
        .with_id("test")
        .with_resource(TextResourceBuilder::new().with_id("r").with_text("hello brave new world"))?;
    for (id, b, e) in [("W1", 0, 5), ("W2", 6, 11), ("W3", 12, 15)] {
        store.annotate(AnnotationBuilder::new().with_id(id)
            .with_target(SelectorBuilder::textselector("r", Offset::simple(b, e)))
            .with_data("s", "type", "word"))?;
    }
    store.annotate(AnnotationBuilder::new().with_id("P")
        .with_target(SelectorBuilder::DirectionalSelector(vec![
            SelectorBuilder::annotationselector("W1", Some(Offset::whole())),
            SelectorBuilder::annotationselector("W2", Some(Offset::whole())),
            SelectorBuilder::annotationselector("W3", Some(Offset::whole())),
        ]))
        .with_data("s", "type", "phrase"))?;
    // for comparison: a single annotation selector keeps 0:-0
    store.annotate(AnnotationBuilder::new().with_id("Q")
        .with_target(SelectorBuilder::annotationselector("W1", Some(Offset::whole())))
        .with_data("s", "type", "ref"))?;
    let json = store.to_json_string(&Config::default())?;
    let v: serde_json::Value = serde_json::from_str(&json).unwrap();
    let mut ends = Vec::new();
    for a in v["annotations"].as_array().unwrap() {
        let id = a["@id"].as_str().unwrap();
        if id == "P" {
            for sub in a["target"]["selectors"].as_array().unwrap() { ends.push(sub["offset"]["end"]["@type"].as_str().unwrap().to_string()); }
        }
        if id == "Q" { assert_eq!(a["target"]["offset"]["end"]["@type"], "EndAlignedCursor"); }
    }
    assert_eq!(ends, vec!["EndAlignedCursor"; 3], "the sub-selectors were given as 0:-0 and must be written so");
    let store2 = AnnotationStore::from_str(&json, Config::default())?;
    assert_eq!(store2.to_json_string(&Config::default())?, json);
    assert_eq!(store2.annotation("P").unwrap().text().collect::<Vec<_>>(), vec!["hello", "brave", "new"]);
    Ok(())
}
