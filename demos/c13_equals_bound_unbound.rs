use stam::*;

/// C13: EQUALS is "same begin and same end". A text selection an annotation points at (it has a handle) and the same
/// range obtained by offset (no handle) are equal.
#[test]
fn equals_ignores_whether_a_selection_is_known() -> Result<(), StamError> {
    let mut store = AnnotationStore::default()
        .with_id("t")
        .with_resource(TextResourceBuilder::new().with_id("r").with_text("hello brave world"))?;
    store.annotate(
        AnnotationBuilder::new()
            .with_id("W")
            .with_target(SelectorBuilder::textselector("r", Offset::simple(6, 11)))
            .with_data("ds", "type", "word"),
    )?;
    let resource = store.resource("r").or_fail()?;
    let bound = store.annotation("W").or_fail()?.textselections().next().unwrap();
    assert!(bound.handle().is_some());
    let known: &TextSelection = bound.inner();
    // the same range, taken relative to itself: a fresh value without a handle
    let adhoc: TextSelection = known.textselection_by_offset(&Offset::whole())?;
    assert!(adhoc.handle().is_none());
    assert_eq!((adhoc.begin(), adhoc.end()), (6, 11));
    let res: &TextResource = resource.as_ref();
    assert!(known.test(&TextSelectionOperator::samerange(), &adhoc, res));
    assert!(known.test(&TextSelectionOperator::embeds(), &adhoc, res));
    assert!(known.test(&TextSelectionOperator::equals(), &adhoc, res), "EQUALS is false for the same range");
    assert!(adhoc.test(&TextSelectionOperator::equals(), known, res));
    assert!(!known.test(&TextSelectionOperator::equals().toggle_negate(), &adhoc, res));
    Ok(())
}
