use stam::*;
#[test]
fn keys_of_different_sets_are_distinct() {
    let mut store = AnnotationStore::default().with_id("s")
        .with_resource(TextResourceBuilder::new().with_id("r").with_text("hello world")).unwrap();
    store.annotate(AnnotationBuilder::new().with_id("A1").with_target(SelectorBuilder::textselector("r", Offset::simple(0,5))).with_data("set","k","v").with_data("set2","k2","w")).unwrap();
    assert_eq!(store.keys().count(), 2);
    let a = store.annotation("A1").unwrap();
    assert_eq!(a.keys().count(), 2);
    let keys = store.keys().to_handles(&store);
    assert_eq!(store.keys().filter_any(keys).count(), 2);
    let q: Query = "SELECT KEY ?k".try_into().unwrap();
    assert_eq!(store.query(q).unwrap().count(), 2);
}
