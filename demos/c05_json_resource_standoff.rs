use stam::*;

/// C05: a resource kept in a stand-off STAM JSON file (r.json) must be written as JSON, so that the
/// store that @includes it loads again.
#[test]
fn standoff_json_resource_roundtrips() -> Result<(), StamError> {
    let dir = std::env::temp_dir().join(format!("c05_jsonres_{}", std::process::id()));
    std::fs::create_dir_all(&dir).unwrap();
    let storefile = dir.join("main.store.stam.json");
    let storefile = storefile.to_str().unwrap();
    let resfile = dir.join("hello.textresource.stam.json");
    let resfile = resfile.to_str().unwrap();
    let mut store = AnnotationStore::default()
        .with_id("t")
        .with_resource(TextResourceBuilder::new().with_id("r").with_text("Hello world").with_filename(resfile))?
        .with_annotation(
            AnnotationBuilder::new()
                .with_id("A1")
                .with_target(SelectorBuilder::textselector("r", Offset::simple(0, 5)))
                .with_data_with_id("ds", "pos", "noun", "D1"),
        )?;
    store.set_filename(storefile);
    store.save()?;
    let written = std::fs::read_to_string(resfile).expect("stand-off file written");
    let loaded = AnnotationStore::from_file(storefile, Config::default());
    std::fs::remove_dir_all(&dir).ok();
    assert!(written.trim_start().starts_with('{'), "the .json stand-off file holds: {:?}", written);
    let loaded = loaded?;
    assert_eq!(loaded.annotation("A1").unwrap().text_simple(), Some("Hello"));
    Ok(())
}
