use stam::*;
#[test]
fn text_by_offset_on_selection() -> Result<(), StamError> {
    let store = AnnotationStore::default()
        .with_id("test")
        .with_resource(TextResourceBuilder::new().with_id("r").with_text("hello brave new world"))?;
    let res = store.resource("r").unwrap();
    let sel = res.textselection(&Offset::simple(6, 15))?; // "brave new"
    assert_eq!(sel.text(), "brave new");
    let t = sel.text_by_offset(&Offset::simple(0, 5));
    eprintln!("{:?}", t);
    assert_eq!(t?, "brave");
    let t = sel.text_by_offset(&Offset::simple(6, 9))?;
    assert_eq!(t, "new");
    Ok(())
}
