use stam::*;
#[test]
fn equals_with_all_modifier_returns_the_reference_too() -> Result<(), StamError> {
    let mut store = AnnotationStore::default()
        .with_id("test")
        .with_resource(TextResourceBuilder::new().with_id("r").with_text("hello world"))?;
    store.annotate(AnnotationBuilder::new().with_id("A1")
        .with_target(SelectorBuilder::textselector("r", Offset::simple(0, 5)))
        .with_data("s", "k", "v"))?;
    let res = store.resource("r").unwrap();
    let sel = res.textselection(&Offset::simple(0, 5))?;
    let plain: Vec<_> = sel.related_text(TextSelectionOperator::equals()).map(|t| (t.begin(), t.end())).collect();
    let all: Vec<_> = sel.related_text(TextSelectionOperator::equals().toggle_all()).map(|t| (t.begin(), t.end())).collect();
    assert_eq!(plain, vec![(0, 5)]);
    assert_eq!(all, plain, "the `all` modifier changes nothing for a single reference selection");
    Ok(())
}
