use stam::*;

/// C09: printing a query and parsing the result gives the same structure, and printing again the same text.
/// A sub-query without constraints of its own is printed as "... ?t}" - the brace glued to the name.
#[test]
fn subquery_without_constraints_roundtrips() -> Result<(), StamError> {
    let text = "SELECT ANNOTATION ?a WHERE DATA \"set\" \"key\"; { SELECT TEXT ?t }";
    let query: Query = text.try_into()?;
    assert_eq!(query.subqueries().count(), 1);
    assert_eq!(query.subqueries().next().unwrap().name(), Some("t"));
    let printed = query.to_string()?;
    let reparsed: Query = printed.as_str().try_into().map_err(|e| {
        eprintln!("printed query does not parse:\n{}\n{:?}", printed, e);
        e
    })?;
    assert_eq!(reparsed.subqueries().count(), 1);
    assert_eq!(reparsed.subqueries().next().unwrap().name(), Some("t"), "printed: {}", printed);
    assert_eq!(reparsed.to_string()?, printed);
    Ok(())
}

#[test]
fn nested_subquery_without_constraints_roundtrips() -> Result<(), StamError> {
    let text = "SELECT ANNOTATION ?a { SELECT ANNOTATION ?b WHERE ANNOTATION ?a; { SELECT TEXT ?t } }";
    let query: Query = text.try_into()?;
    let printed = query.to_string()?;
    let reparsed: Query = printed.as_str().try_into().map_err(|e| {
        eprintln!("printed query does not parse:\n{}\n{:?}", printed, e);
        e
    })?;
    assert_eq!(reparsed.to_string()?, printed);
    assert_eq!(reparsed.subqueries().next().unwrap().subqueries().next().unwrap().name(), Some("t"));
    Ok(())
}

#[test]
fn sibling_subqueries_without_constraints_roundtrip() -> Result<(), StamError> {
    let text = "SELECT ANNOTATION ?a { SELECT TEXT ?t | SELECT DATA ?d }";
    let query: Query = text.try_into()?;
    assert_eq!(query.subqueries().count(), 2);
    let printed = query.to_string()?;
    let reparsed: Query = printed.as_str().try_into()?;
    assert_eq!(reparsed.subqueries().count(), 2);
    assert_eq!(reparsed.subqueries().nth(1).unwrap().name(), Some("d"));
    assert_eq!(reparsed.to_string()?, printed);
    Ok(())
}
