use stam::*;

/// C05: writing a store - also one whose resources and datasets live in stand-off files - and reading it back
/// gives the same store; that holds for the second place it is written to as well as for the first.
#[test]
fn store_with_standoff_members_saved_to_a_second_directory() {
    let base = std::env::temp_dir().join(format!("demo_c05_seconddir_{}", std::process::id()));
    let _ = std::fs::remove_dir_all(&base);
    let a = base.join("a");
    let b = base.join("b");
    std::fs::create_dir_all(&a).unwrap();
    std::fs::create_dir_all(&b).unwrap();

    let mut store = AnnotationStore::new(Config::default())
        .with_id("t")
        .with_filename(a.join("x.store.stam.json").to_str().unwrap());
    store
        .add_resource(
            TextResourceBuilder::new()
                .with_id("r")
                .with_text("hello world")
                .with_filename("hello.txt"),
        )
        .unwrap();
    store
        .add_dataset(
            AnnotationDataSetBuilder::new()
                .with_id("s")
                .with_filename("s.annotationset.stam.json")
                .with_key("pos"),
        )
        .unwrap();
    store
        .annotate(
            AnnotationBuilder::new()
                .with_id("A1")
                .with_target(SelectorBuilder::textselector("r", Offset::simple(0, 5)))
                .with_data("s", "pos", "noun"),
        )
        .unwrap();
    store.save().unwrap();
    assert!(a.join("hello.txt").exists());
    let first = AnnotationStore::from_file(a.join("x.store.stam.json").to_str().unwrap(), Config::default()).unwrap();
    assert_eq!(first.annotations_len(), 1);

    // now write the same store somewhere else
    store.set_filename(b.join("x.store.stam.json").to_str().unwrap());
    store.save().unwrap();
    let second = AnnotationStore::from_file(b.join("x.store.stam.json").to_str().unwrap(), Config::default());
    assert!(second.is_ok(), "the copy in the second directory does not load: {:?}", second.err());
    let second = second.unwrap();
    assert_eq!(second.resource("r").unwrap().text(), "hello world");
    assert_eq!(second.annotation("A1").unwrap().text_simple(), Some("hello"));
    let _ = std::fs::remove_dir_all(&base);
}
