use stam::*;
#[test]
fn datasets_sorted_unique() {
    let mut store = AnnotationStore::default().with_id("s");
    store = store.with_dataset(AnnotationDataSetBuilder::new().with_id("set1")).unwrap().with_dataset(AnnotationDataSetBuilder::new().with_id("set2")).unwrap();
    store.annotate(AnnotationBuilder::new().with_id("A").with_target(SelectorBuilder::DirectionalSelector(vec![SelectorBuilder::DataSetSelector("set2".into()), SelectorBuilder::DataSetSelector("set1".into()), SelectorBuilder::DataSetSelector("set2".into())])).with_data("set1","k","v")).unwrap();
    let a = store.annotation("A").unwrap();
    let ids: Vec<_> = a.datasets().map(|d| d.id().unwrap().to_string()).collect();
    println!("{:?}", ids);
    assert_eq!(ids, vec!["set1", "set2"]);
}
