use stam::*;
#[test]
fn samerange_on_sets() -> Result<(), StamError> {
    let store = AnnotationStore::default()
        .with_id("test")
        .with_resource(TextResourceBuilder::new().with_id("r").with_text("0123456789"))?;
    let res = store.resource("r").unwrap();
    let a: TextSelectionSet = vec![res.textselection(&Offset::simple(0, 2))?, res.textselection(&Offset::simple(4, 6))?].into_iter().collect();
    let whole: TextSelectionSet = res.textselection(&Offset::simple(0, 6))?.into();
    let other: TextSelectionSet = res.textselection(&Offset::simple(0, 5))?.into();
    let r = res.as_ref();
    assert!(a.test_set(&TextSelectionOperator::samerange(), &whole, r), "{{[0,2),[4,6)}} has the same range as [0,6)");
    assert!(!a.test_set(&TextSelectionOperator::samerange(), &other, r));
    assert!(!a.test_set(&TextSelectionOperator::samerange().toggle_negate(), &whole, r));
    assert!(a.test(&TextSelectionOperator::samerange(), res.textselection(&Offset::simple(0, 6))?.inner(), r));
    Ok(())
}
