use stam::*;
#[test]
fn find_text_sequence_on_subselection() {
    let store = AnnotationStore::default().with_id("s")
        .with_resource(TextResourceBuilder::new().with_id("r").with_text("one two three four five six")).unwrap();
    let r = store.resource("r").unwrap();
    let sub = r.textselection(&Offset::simple(14, 27)).unwrap();
    assert_eq!(sub.text(), "four five six");
    let res = std::panic::catch_unwind(std::panic::AssertUnwindSafe(|| sub.find_text_sequence(&["four", "five"], |c| !c.is_alphabetic(), true)));
    let v = res.expect("must not panic").expect("the sequence is at the start of the selection");
    assert_eq!(v.iter().map(|t| t.text()).collect::<Vec<_>>(), vec!["four", "five"]);
    // a word between the start of the selection and the first fragment may not be skipped
    let sub2 = r.textselection(&Offset::simple(8, 27)).unwrap();
    assert!(sub2.find_text_sequence(&["four", "five"], |c| !c.is_alphabetic(), true).is_none());
    // but it is found when letters may be skipped
    assert!(sub2.find_text_sequence(&["four", "five"], |_| true, true).is_some());
}
