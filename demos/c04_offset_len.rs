use stam::*;
#[test]
fn inverted_offset_has_no_length() {
    assert_eq!(Offset::simple(2, 5).len(), Some(3));
    assert_eq!(Offset::simple(5, 2).len(), None);
    assert_eq!(Offset::new(Cursor::EndAligned(-5), Cursor::EndAligned(-2)).len(), Some(3));
    assert_eq!(Offset::new(Cursor::EndAligned(-2), Cursor::EndAligned(-5)).len(), None);
    assert_eq!(Offset::new(Cursor::EndAligned(isize::MIN), Cursor::EndAligned(0)).len(), None);
    assert_eq!(Offset::whole().len(), None);
}
