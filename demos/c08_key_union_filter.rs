use stam::*;
#[test]
fn key_query_with_union_as_later_constraint() {
    let mut store = AnnotationStore::default().with_id("s")
        .with_resource(TextResourceBuilder::new().with_id("r").with_text("hello world")).unwrap();
    store.annotate(AnnotationBuilder::new().with_id("A1").with_target(SelectorBuilder::textselector("r", Offset::simple(0,5))).with_data("set","k","v").with_data("set2","k2","w")).unwrap();
    let q: Query = "SELECT KEY ?k WHERE DATASET \"set\"; [ DATASET \"set\" OR DATASET \"set2\" ];".try_into().unwrap();
    let mut n = 0;
    for r in store.query(q).unwrap() { if let Ok(QueryResultItem::DataKey(k)) = r.get_by_name("k") { println!("{:?}", k.id()); n += 1; } }
    assert_eq!(n, 1);
    // iterator API
    let keys = store.keys().to_handles(&store);
    assert_eq!(store.keys().filter_any(keys).count(), 2);
}
