use stam::*;
const TEXTVALIDATION_SET: &str = "https://w3id.org/stam/extensions/stam-textvalidation/";
#[test]
fn row_sorted_after_protect() -> Result<(), StamError> {
    let mut store = AnnotationStore::default()
        .with_id("test")
        .with_resource(TextResourceBuilder::new().with_id("testres").with_text("hello world"))?
        .with_dataset(AnnotationDataSetBuilder::new().with_id("testdataset"))?
        .with_annotation(AnnotationBuilder::new().with_id("A0")
                .with_target(SelectorBuilder::textselector("testres", Offset::simple(0, 5)))
                .with_data("testdataset", "pos", "interjection"))?;
    for (id, key, value) in [("A1", "lemma", "hello"), ("A2", "lang", "en"), ("A3", "sentiment", "positive")] {
        store.annotate(AnnotationBuilder::new().with_id(id)
                .with_target(SelectorBuilder::textselector("testres", Offset::simple(0, 5)))
                .with_data("testdataset", key, value)
                .with_data(TEXTVALIDATION_SET, "text", "hello"))?;
    }
    store.protect_text(TextValidationMode::Text)?;
    let data = store.find_data(TEXTVALIDATION_SET, "text", DataOperator::Equals("hello".into())).next().unwrap();
    let ids: Vec<_> = data.annotations().map(|a| a.id().unwrap().to_string()).collect();
    eprintln!("{:?}", ids);
    let handles = data.annotations().to_handles(&store);
    let a0 = store.annotation("A0").unwrap().handle();
    assert!(handles.contains(&a0), "binary search on a collection announced as sorted misses A0");
    assert_eq!(ids, vec!["A0", "A1", "A2", "A3"]);
    Ok(())
}
