use stam::*;
#[test]
fn resource_json_without_text_is_an_error() {
    let dir = std::env::temp_dir();
    let path = dir.join("stam_c19_notext.json");
    std::fs::write(&path, "{ \"@type\": \"TextResource\", \"@id\": \"r\" }").unwrap();
    let r = AnnotationStore::default().with_id("s").with_resource(TextResourceBuilder::new().with_filename(path.to_str().unwrap()));
    assert!(r.is_err());
}
