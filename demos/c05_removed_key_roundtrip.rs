use stam::*;
#[test]
fn removed_key_roundtrip() -> Result<(), StamError> {
    let mut store = AnnotationStore::default()
        .with_id("test")
        .with_resource(TextResourceBuilder::new().with_id("testres").with_text("hello world"))?
        .with_dataset(AnnotationDataSetBuilder::new().with_id("testdataset"))?
        .with_annotation(AnnotationBuilder::new().with_id("A0")
                .with_target(SelectorBuilder::textselector("testres", Offset::simple(0, 5)))
                .with_data("testdataset", "pos", "interjection")
                .with_data("testdataset", "lemma", "hello"))?;
    store.remove_key("testdataset", "pos", false)?;
    let json = store.to_json_string(&Config::default())?;
    eprintln!("{}", json);
    let store2 = AnnotationStore::from_str(&json, Config::default())?;
    assert_eq!(store2.annotations_len(), 1);
    let a = store2.annotation("A0").unwrap();
    assert_eq!(a.data().count(), 1);
    Ok(())
}
