use stam::*;
#[test]
fn root_resource_with_lower_handle_than_substore_resource() -> Result<(), StamError> {
    let dir = std::env::temp_dir().join(format!("demo_substore_{}", std::process::id()));
    let _ = std::fs::remove_dir_all(&dir);
    std::fs::create_dir_all(&dir).expect("create temp dir");
    let mainfile = dir.join("main.store.stam.json");
    let mainfile = mainfile.to_str().unwrap();
    let mut store = AnnotationStore::new(Config::default()).with_id("main").with_filename(mainfile);
    // a resource of the root store first (handle 0) ...
    store.add_resource(TextResourceBuilder::new().with_id("rootres").with_text("root text"))?;
    // ... then a sub-store with a resource of its own (handle 1)
    let sub = store.add_new_substore("sub", "sub.store.stam.json")?;
    let res = store.add_resource(TextResourceBuilder::new().with_id("subres").with_text("sub text"))?;
    store.associate_substore(res, sub)?;
    store.annotate(AnnotationBuilder::new().with_id("A1")
        .with_target(SelectorBuilder::textselector("rootres", Offset::simple(0, 4)))
        .with_data("set", "k", "v"))?;
    store.save()?;
    let main = std::fs::read_to_string(dir.join("main.store.stam.json")).unwrap();
    eprintln!("{}", main);
    assert!(main.contains("rootres"), "the root store's own resource was not written");
    let store2 = AnnotationStore::from_file(mainfile, Config::default())?;
    assert!(store2.resource("rootres").is_some());
    assert_eq!(store2.annotation("A1").unwrap().text_simple(), Some("root"));
    Ok(())
}
