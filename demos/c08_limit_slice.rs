use stam::*;
#[test]
fn limit_semantics() {
    let mut bad = 0;
    for len in 0..8usize {
        let v: Vec<usize> = (0..len).collect();
        for b in -9isize..=9 { for e in -9isize..=9 {
            let got: Vec<usize> = v.iter().copied().limit(b, e).collect();
            let n = len as isize;
            let start = if b < 0 { (n + b).max(0) } else { b.min(n) };
            let stop = if e == 0 { n } else if e < 0 { (n + e).max(0) } else { e.min(n) };
            let want: Vec<usize> = if start < stop { (start as usize..stop as usize).collect() } else { vec![] };
            if got != want { bad += 1; if bad < 12 { println!("len={} limit({},{}) = {:?} want {:?}", len, b, e, got, want); } }
        }}
    }
    println!("bad={}", bad);
    assert_eq!(bad, 0);
}
