use stam::*;

/// C10: testing data against a key that does not exist is false (what a scan gives), not a panic
#[test]
fn data_test_with_unknown_key_is_false() -> Result<(), StamError> {
    let mut store = AnnotationStore::default()
        .with_id("t")
        .with_resource(TextResourceBuilder::new().with_id("r").with_text("hello world"))?;
    store.annotate(
        AnnotationBuilder::new()
            .with_id("A1")
            .with_target(SelectorBuilder::textselector("r", Offset::simple(0, 5)))
            .with_data_with_id("ds", "pos", "noun", "D1"),
    )?;
    let data = store.annotationdata("ds", "D1").or_fail()?;
    assert!(data.test("pos", &DataOperator::Equals("noun".into())));
    assert!(!data.test("lemma", &DataOperator::Equals("noun".into())));
    assert!(!data.key().test("lemma"));
    assert!(data.key().test("pos"));
    Ok(())
}
